"""C35 helpers: parameter cases for date()/the three method wrappers, their encoding as
Coq terms of coq/model/Validate.v, running the real functions and classifying the outcome,
pathological-but-valid tree sequence generators, and crash signatures."""
import json
import math
import os
import traceback
import warnings
from fractions import Fraction

import numpy as np

from vlib import gen

# ---------------------------------------------------------------- value encoding
# a numeric value is None or {"k": "bool"|"int"|"npint"|"float"|"npfloat", "v": ...}
# floats are stored as repr strings ("nan", "inf", "-inf", or float.hex()) so replay is exact


def V(x):
    """encode a Python value"""
    if x is None:
        return None
    if isinstance(x, np.bool_):
        return {"k": "npbool", "v": bool(x)}
    if isinstance(x, bool):
        return {"k": "bool", "v": bool(x)}
    if isinstance(x, int):
        return {"k": "int", "v": int(x)}
    if isinstance(x, np.integer):
        return {"k": "npint", "v": int(x)}
    if isinstance(x, np.floating):
        return {"k": "npfloat", "v": _fs(float(np.float64(x)))}
    if isinstance(x, float):
        return {"k": "float", "v": _fs(x)}
    raise TypeError(x)


def _fs(x):
    if math.isnan(x):
        return "nan"
    if math.isinf(x):
        return "inf" if x > 0 else "-inf"
    return x.hex()


def _ff(s):
    if s in ("nan", "inf", "-inf"):
        return float(s)
    return float.fromhex(s)


def PY(v):
    """decode to the Python value"""
    if v is None:
        return None
    k = v["k"]
    if k == "bool":
        return bool(v["v"])
    if k == "npbool":
        return np.bool_(v["v"])
    if k == "int":
        return int(v["v"])
    if k == "npint":
        return np.int64(v["v"])
    if k == "npfloat":
        return np.float64(_ff(v["v"]))
    if k == "float":
        return _ff(v["v"])
    raise ValueError(v)


def show(v):
    if v is None:
        return None
    if v["k"] in ("float", "npfloat"):
        return "%s(%r)" % (v["k"], _ff(v["v"]))
    return "%s(%r)" % (v["k"], v["v"])


def fval(v):
    """numeric value as Python float (for predicates in the oracle)"""
    x = PY(v)
    return float(x)


# ---------------------------------------------------------------- Coq terms
def c_xnum(x):
    if math.isnan(x):
        return "XNaN"
    if math.isinf(x):
        return "XPInf" if x > 0 else "XNInf"
    fr = Fraction(x)          # exact
    return "(XFin (%d # %d))" % (fr.numerator, fr.denominator)


def c_num(v):
    k = v["k"]
    if k == "bool":
        return "(NBool %s)" % ("true" if v["v"] else "false")
    if k == "int":
        return "(NInt (%d))" % v["v"]
    if k == "npint":
        return "(NNpInt (%d))" % v["v"]
    if k == "npbool":
        return "(NNpInt (%d))" % (1 if v["v"] else 0)     # numpy.bool_: numeric, not an instance of int
    return "(NFloat %s)" % c_xnum(_ff(v["v"]))


def c_onum(v):
    return "None" if v is None else "(Some %s)" % c_num(v)


def c_bool(b):
    return "true" if b else "false"


METHODS = {"variational_gamma": "MVariational", "inside_outside": "MInsideOutside",
           "maximization": "MMaximization"}
VAR_ONLY = ("rescaling_intervals", "rescaling_iterations", "match_segregating_sites",
            "regularise_roots", "singletons_phased")
IO_ONLY = ("outside_standardize", "ignore_oldest_root")


def c_params(case):
    p = case["params"]
    m = p.get("method")
    if m is None:
        cm = "None"
    else:
        cm = "(Some %s)" % METHODS.get(m, "MUnknown")
    pop = p.get("population_size")
    if pop is None:
        cpop = "PopNone"
    elif pop.get("k") == "dict":
        cpop = "(PopDict %s)" % c_bool(pop["ok"])
    elif pop.get("k") in ("obj", "ndarray"):
        cpop = "PopObj"
    else:
        cpop = "(PopNum %s)" % c_num(pop)
    ps = p.get("probability_space")
    cps = {None: "PSNone", "linear": "PSLin", "logarithmic": "PSLog"}.get(ps, "PSOther")
    fields = [
        ("p_method", cm),
        ("p_mutation_rate", c_onum(p.get("mutation_rate"))),
        ("p_recombination_rate", c_onum(p.get("recombination_rate"))),
        ("p_population_size", cpop),
        ("p_Ne", c_onum(p.get("Ne"))),
        ("p_priors", c_bool(p.get("priors") is not None)),
        ("p_eps", c_onum(p.get("eps"))),
        ("p_constr_iterations", c_onum(p.get("constr_iterations"))),
        ("p_min_branch_length", c_onum(p.get("min_branch_length"))),
        ("p_max_iterations", c_onum(p.get("max_iterations"))),
        ("p_max_shape", c_onum(p.get("max_shape"))),
        ("p_probability_space", cps),
        ("p_num_threads", c_onum(p.get("num_threads"))),
        ("p_var_only", c_bool(any(p.get(k) is not None for k in VAR_ONLY))),
        ("p_io_only", c_bool(any(p.get(k) is not None for k in IO_ONLY))),
        ("p_return_posteriors", c_bool(p.get("return_posteriors") is not None)),
        ("p_allow_unary", c_onum(p.get("allow_unary"))),
        ("p_return_fit", c_onum(p.get("return_fit"))),
        ("p_return_likelihood", c_onum(p.get("return_likelihood"))),
    ]
    return "{| " + "; ".join("%s := %s" % kv for kv in fields) + " |}"


def c_facts(f):
    return ("{| f_nomut := %s; f_multitree := %s; f_contemporary := %s; f_unary := %s; "
            "f_prior_ts_err := %s |}" % tuple(c_bool(f[k]) for k in
                                              ("nomut", "multitree", "contemporary", "unary", "prior_ts_err")))


def run_model(ctx, cases):
    """[(outcome, shape)] from coq/model/Validate.v;  outcome = 'Proceed' | (cls, tag)"""
    out = []
    for i in range(0, len(cases), 250):
        chunk = cases[i:i + 250]
        terms = ["(decide %s %s, parse_result %s)" % (c_params(c), c_facts(c["facts"]), c_params(c))
                 for c in chunk]
        body = "Definition cases := %s.\nEval vm_compute in cases.\n" % ("[" + ";\n ".join(terms) + "]")
        res = ctx.coq_eval(body, requires=("model.Validate",), tag="validate")
        for dec, shp in res[0]:
            if dec == ("sym", "Proceed"):
                o = "Proceed"
            else:
                assert dec[0] == "Reject", dec
                o = (dec[1][1], dec[2][1])
            kind, val = shp
            if kind == "inl":
                s = ("single", [val[1]])
            else:
                s = ("tuple", [x[1] for x in val])
            out.append((o, s))
    return out


# ---------------------------------------------------------------- building kwargs
def build_kwargs(case, ts):
    """Python keyword arguments of the call described by case['params']"""
    import tsdate
    p = case["params"]
    kw = {}
    for k, v in p.items():
        if k in ("priors", "population_size", "method", "probability_space", "time_units"):
            continue
        if isinstance(v, dict) or v is None:
            kw[k] = PY(v)
        else:
            kw[k] = v
    if "method" in p:
        kw["method"] = p["method"]
    if "probability_space" in p:
        kw["probability_space"] = p["probability_space"]
    if "time_units" in p:
        kw["time_units"] = p["time_units"]
    if "population_size" in p:
        pop = p["population_size"]
        if pop is None:
            kw["population_size"] = None
        elif pop.get("k") == "dict":
            kw["population_size"] = {"population_size": list(pop["sizes"]), "time_breaks": list(pop["breaks"])}
        elif pop.get("k") == "obj":
            kw["population_size"] = tsdate.demography.PopulationSizeHistory(list(pop["sizes"]), list(pop["breaks"]))
        elif pop.get("k") == "ndarray":
            kw["population_size"] = np.array(pop["sizes"], dtype=float)
        else:
            kw["population_size"] = PY(pop)
    if p.get("priors") is not None:
        if p["priors"] == "grid":
            kw["priors"] = priors_for(ts)
        else:
            kw["priors"] = p["priors"]
    return kw


_PRIORS = {}


def priors_for(ts):
    """a prior grid for the nodes of ts (built on the same topology with every sample at time 0,
    so that one exists for tree sequences with historical samples too).  One object per tree
    sequence, reused by every call on it."""
    key = id(ts)
    if key in _PRIORS and _PRIORS[key][0] is ts:
        return _PRIORS[key][1]
    g = _priors_for(ts)
    _PRIORS[key] = (ts, g)
    return g


def _priors_for(ts):
    import tsdate
    tables = ts.dump_tables()
    t = tables.nodes.time.copy()
    t[ts.samples()] = 0
    tables.nodes.time = t
    tables.mutations.time = np.full(tables.mutations.num_rows, np.nan)
    with warnings.catch_warnings():
        warnings.simplefilter("ignore")
        return tsdate.build_prior_grid(tables.tree_sequence(), population_size=1.0, timepoints=6)


# ---------------------------------------------------------------- running + classification
MSG_TAGS = [
    ("ValueError", "method must be one of", "T_method"),
    ("ValueError", "The `eps` parameter has been disambiguated", "T_eps_variational"),
    ("ValueError", "No mutations present", "T_no_mutations"),
    ("TypeError", "got an unexpected keyword argument", "T_unexpected_kwarg"),
    ("ValueError", 'The "return_posteriors" parameter has been deprecated', "T_return_posteriors"),
    ("NotImplementedError", "Using the recombination clock is not currently supported", "T_recombination"),
    ("ValueError", "Number of constrained least squares iterations must be", "T_constr_iterations"),
    ("ValueError", "Minimum branch length must be positive", "T_min_branch_length"),
    ("ValueError", "Priors are not used for method", "T_priors_unused"),
    ("ValueError", "Population size is not used for method", "T_popsize_unused"),
    ("ValueError", "Must specify population size if priors are not already", "T_popsize_required"),
    ("ValueError", "Population sizes must be finite", "T_popsize_infinite"),
    ("ValueError", "Cannot specify population size if specifying priors", "T_popsize_and_priors"),
    ("ValueError", "Only provide one of Ne (deprecated) or population_size", "T_ne_both"),
    ("ValueError", "Maximum number of EP iterations must be greater than 0", "T_max_iterations"),
    ("ValueError", "Variational gamma method requires mutation rate", "T_variational_needs_rate"),
    ("ValueError", "Mutation rate must be positive", "T_rate_positive"),
    ("ValueError", "Tree sequence contains unary nodes, simplify first", "T_unary"),
    ("NotImplementedError", "Specifying no mutation or recombination rate implies", "T_topology_clock"),
    ("ValueError", "Outside maximization method requires mutation rate", "T_maximization_needs_rate"),
    ("NotImplementedError", "Samples must all be at time 0", "T_samples_time0"),
    ("ValueError", "Invalid discrete probability space", "T_probability_space"),
]
CLS = {"ValueError": "VE", "NotImplementedError": "NIE", "TypeError": "TE"}


def _frames(e):
    """(file:func) chain of the frames inside the tsdate package, outermost first, and the
    innermost frame overall"""
    tb = traceback.extract_tb(e.__traceback__)
    chain = []
    for fr in tb:
        fn = fr.filename.replace("\\", "/")
        if "/tsdate/" in fn:
            chain.append("%s:%s" % (os.path.basename(fn), fr.name))
    last = tb[-1] if tb else None
    inner = "%s:%s" % (os.path.basename(last.filename), last.name) if last else "?"
    return chain, inner


def classify(e):
    """validation tag of an exception, or None when it is not one of the front-end messages"""
    name = type(e).__name__
    msg = str(e)
    chain, _inner = _frames(e)
    for cls, prefix, tag in MSG_TAGS:
        if name == cls and prefix in msg:
            return CLS[cls], tag
    if name == "ValueError" and "Population sizes must be greater than 0" in msg:
        # raised by PopulationSizeHistory: from core.__init__ directly (dict) or via the prior builder
        via_prior = any(c.startswith("prior.py:") for c in chain)
        return "VE", ("T_popsize_nonpositive" if via_prior else "T_popsize_dict")
    if name == "ValueError" and chain and chain[-1].startswith("prior.py:") and \
            not any(c == "prior.py:make_discretised_prior" for c in chain) and \
            any(c == "core.py:__init__" for c in chain):
        return "VE", "T_prior_ts"
    return None


def call(case, ts):
    """run the call; returns dict(kind='ok', tuple=bool, items=[...]) or
    dict(kind='exc', type, msg, chain, inner, tag)"""
    import tsdate
    kw = build_kwargs(case, ts)
    entry = case.get("entry", "date")
    fn = tsdate.date
    if entry != "date":
        fn = getattr(tsdate, entry)
        kw.pop("method", None)
    import logging
    logging.getLogger("tsdate").setLevel(logging.ERROR)     # "Could not set time metadata ..." warnings are expected
    try:
        with warnings.catch_warnings():
            warnings.simplefilter("ignore")
            with np.errstate(all="ignore"):
                r = fn(ts, **kw)
    except BaseException as e:   # noqa: BLE001 - SystemExit etc. are failures too
        if isinstance(e, (KeyboardInterrupt, MemoryError)):
            raise
        chain, inner = _frames(e)
        return {"kind": "exc", "type": type(e).__name__, "msg": str(e)[:200], "chain": chain,
                "inner": inner, "tag": classify(e), "has_msg": bool(str(e).strip())}
    return {"kind": "ok", "tuple": isinstance(r, tuple), "items": [item_kind(x) for x in (r if isinstance(r, tuple) else (r,))],
            "result": r}


def item_kind(x):
    import tskit
    import tsdate
    if isinstance(x, tskit.TreeSequence):
        return "RTreeSequence"
    if isinstance(x, (tsdate.variational.ExpectationPropagation, tsdate.discrete.BeliefPropagation)):
        return "RFit"
    if x is None or isinstance(x, (float, np.floating)):
        return "RLikelihood"
    return "?" + type(x).__name__


# ---------------------------------------------------------------- facts about a ts
def ts_facts(ts, allow_unary):
    import tsdate
    samples = ts.samples()
    facts = {
        "nomut": ts.num_mutations == 0,
        "multitree": ts.num_trees > 1,
        "contemporary": bool(np.all(ts.nodes_time[samples] == 0)),
        "unary": bool(tsdate.util.contains_unary_nodes(ts)),
    }
    try:
        with warnings.catch_warnings():
            warnings.simplefilter("ignore")
            tsdate.prior.MixturePrior(ts, False, None, "lognorm", bool(allow_unary), False)
        facts["prior_ts_err"] = False
    except ValueError:
        facts["prior_ts_err"] = True
    except Exception:    # noqa: BLE001 - the prior builder crashes (finding K35e): not a rejection
        facts["prior_ts_err"] = False
    return facts


# ---------------------------------------------------------------- tree sequences
def small_ts(rng, kind):
    """tree sequences used by the parameter stream (small, so that accepted calls are fast)"""
    import msprime
    import tskit
    seed = rng.randrange(1, 2**31 - 1)
    if kind == "multi":
        for _ in range(20):
            ts = msprime.sim_ancestry(rng.randint(3, 5), ploidy=1, sequence_length=50, recombination_rate=0.04,
                                      random_seed=rng.randrange(1, 2**31 - 1), population_size=1)
            ts = msprime.sim_mutations(ts, rate=0.08, random_seed=seed)
            if ts.num_trees > 1 and ts.num_mutations > 3:
                return ts
    if kind == "single":
        ts = msprime.sim_ancestry(rng.randint(3, 5), ploidy=1, sequence_length=50, recombination_rate=0,
                                  random_seed=seed, population_size=1)
        return msprime.sim_mutations(ts, rate=0.1, random_seed=seed)
    if kind == "nomut_multi":
        for _ in range(20):
            ts = msprime.sim_ancestry(rng.randint(3, 5), ploidy=1, sequence_length=50, recombination_rate=0.05,
                                      random_seed=rng.randrange(1, 2**31 - 1), population_size=1)
            if ts.num_trees > 1:
                return ts
    if kind == "nomut_single":
        return msprime.sim_ancestry(rng.randint(3, 5), ploidy=1, sequence_length=50, recombination_rate=0,
                                    random_seed=seed, population_size=1)
    if kind.startswith("sitesnomut") or kind in ("rootmuts_only", "isolated_only"):
        return sites_without_mutations(rng, kind)
    if kind == "historical":
        samples = [msprime.SampleSet(2, time=0, ploidy=1), msprime.SampleSet(2, time=0.5, ploidy=1)]
        ts = msprime.sim_ancestry(samples=samples, sequence_length=50, recombination_rate=0.02,
                                  random_seed=seed, population_size=1)
        return msprime.sim_mutations(ts, rate=0.1, random_seed=seed)
    if kind == "unary":
        for _ in range(30):
            ts = msprime.sim_ancestry(4, ploidy=1, sequence_length=50, recombination_rate=0.06,
                                      random_seed=rng.randrange(1, 2**31 - 1), population_size=1,
                                      record_full_arg=False)
            ts = msprime.sim_mutations(ts, rate=0.1, random_seed=seed)
            ts2 = ts.simplify(keep_unary=True)
            # create unary stretches: remove one sample from the sample set but keep its ancestors
            ts2 = ts.simplify(samples=list(ts.samples())[:-1], keep_unary=True)
            import tsdate
            if tsdate.util.contains_unary_nodes(ts2) and ts2.num_mutations > 0:
                return ts2
    # fallback
    ts = msprime.sim_ancestry(4, ploidy=1, sequence_length=50, recombination_rate=0.02, random_seed=seed,
                              population_size=1)
    return msprime.sim_mutations(ts, rate=0.1, random_seed=seed)


def sites_without_mutations(rng, kind):
    """valid tree sequences whose SITE table is non-empty although no mutation can inform the
    dating: no mutations at all (three ways of getting there), or mutations only above roots /
    only on nodes that are isolated at the site"""
    import msprime
    import tskit
    seed = rng.randrange(1, 2**31 - 1)
    L = 50
    rec = rng.choice([0.0, 0.04])
    if kind == "sitesnomut_bare":
        ts = msprime.sim_ancestry(rng.randint(3, 5), ploidy=1, sequence_length=L, recombination_rate=rec,
                                  random_seed=seed, population_size=1)
        t = ts.dump_tables()
        for x in sorted(rng.sample(range(L), rng.randint(1, 4))):
            t.sites.add_row(position=float(x), ancestral_state="A")
        return t.tree_sequence()
    if kind == "sitesnomut_cleared":
        ts = msprime.sim_ancestry(rng.randint(3, 5), ploidy=1, sequence_length=L, recombination_rate=rec,
                                  random_seed=seed, population_size=1)
        ts = msprime.sim_mutations(ts, rate=0.08, random_seed=seed)
        t = ts.dump_tables()
        t.mutations.clear()
        return t.tree_sequence()
    if kind == "sitesnomut_subset":
        # every mutation sits above one sample (a singleton); that sample is then dropped
        for _ in range(50):
            ts = msprime.sim_ancestry(rng.randint(4, 6), ploidy=1, sequence_length=L, recombination_rate=rec,
                                      random_seed=rng.randrange(1, 2**31 - 1), population_size=1)
            t = ts.dump_tables()
            victim = int(rng.choice(list(ts.samples())))
            for x in sorted(rng.sample(range(L), rng.randint(1, 4))):
                sid = t.sites.add_row(position=float(x), ancestral_state="0")
                t.mutations.add_row(site=sid, node=victim, derived_state="1")
            full = t.tree_sequence()
            keep = [int(u) for u in full.samples() if int(u) != victim]
            sub = full.simplify(keep, filter_sites=False)
            if sub.num_sites > 0 and sub.num_mutations == 0:
                return sub
        return sub
    # mutations exist, but none on an edge
    ts = msprime.sim_ancestry(rng.randint(3, 5), ploidy=1, sequence_length=L, recombination_rate=rec,
                              random_seed=seed, population_size=1)
    if kind == "isolated_only":
        s_ = int(rng.choice(list(ts.samples())))
        ts = _isolate(ts, s_, 10, 30)
    t = ts.dump_tables()
    for x in sorted(rng.sample(range(11, 29), rng.randint(1, 3))):
        sid = t.sites.add_row(position=float(x), ancestral_state="0")
        tree = ts.at(float(x))
        if kind == "isolated_only":
            node = s_
        else:
            node = int(rng.choice(list(tree.roots)))
        t.mutations.add_row(site=sid, node=node, derived_state="1")
    t.sort()
    t.build_index()
    t.compute_mutation_parents()
    return t.tree_sequence()


# ---------------------------------------------------------------- parameter stream
NAN = float("nan")
INF = float("inf")

POOL = {
    "mutation_rate": [None, 0, 0.0, -0.0, -1, -1e-9, NAN, -INF, True, False, 1e-3, 0.05, 0.5, 1,
                      np.float64(0.02), np.float64(0.0), np.int64(1), np.int64(0), 5e-3, np.True_, np.False_,
                      np.float32(0.5)],
    "min_branch_length": [None, 0, 0.0, -0.0, -1, -1e-9, 1e-9, 1e-8, 1e-6, NAN, -INF, True, False, 1, 0.5,
                          np.float64(0.0), np.float64(1e-6), np.int64(0), np.int64(1), 1e-3, INF, np.True_, np.False_],
    "constr_iterations": [None, -1, 0, 1, 3, 100, 1.0, 2.5, NAN, INF, True, False, np.int64(3), np.int64(-1),
                          -5, 0.0, 7, np.True_, np.int64(0)],
    "max_iterations": [None, 0, -1, 1, 2, 3, 0.5, NAN, True, False, -0.5, np.int64(2), np.int64(0), -INF, 0.0,
                       np.True_, np.False_],
    "eps": [None, 0, 1e-8, 1e-6, 1e-3, True, np.float64(1e-8)],
    "recombination_rate": [None, 0, 1e-8, NAN, 1.0, False],
    "Ne": [None, 1, 0, 2.5, -1, np.float64(1.5)],
    "allow_unary": [None, True, False, 0, 1, np.True_, np.False_],
    "return_fit": [None, True, False, 0, 1, 2.0, 0.0, np.True_, np.False_, np.int64(0)],
    "return_likelihood": [None, True, False, 0, 1, 0.0, NAN, np.True_, np.False_],
    "max_shape": [None, 10, 1000, 50.5],
    "num_threads": [None, 1, 0],
    "probability_space": [None, "linear", "logarithmic", "foo", "LINEAR", ""],
    "return_posteriors": [None, True, False],
}
POP_POOL = [None, 1, 0.5, 100, 1e4, 0, -1, -0.0, NAN, INF, -INF, True, False, np.float64(2.0), np.float64(0.0),
            np.int64(3), np.int64(0), np.True_, ("ndarray", [1.0]),
            ("dict", [1.0, 2.0], [1.0], True), ("dict", [1.0, 0.0], [1.0], False), ("dict", [-1.0], [], False),
            ("obj", [1.0, 3.0], [0.5])]

VALID = {
    "mutation_rate": [1e-3, 0.05, 0.5, 1, np.float64(0.02), True],
    "min_branch_length": [None, 1e-9, 1e-8, 1e-6, 1e-3, True, np.float64(1e-6)],
    "constr_iterations": [None, 0, 1, 3, 100, True, False],
    "max_iterations": [None, 1, 2, 3, np.int64(2), True],
    "eps": [None, 1e-8, 1e-6],
    "allow_unary": [None, True, False],
    "return_fit": [None, True, False, 0, 1],
    "return_likelihood": [None, True, False, 0, 1],
    "max_shape": [None, 10, 1000],
    "num_threads": [None, 1],
    "probability_space": [None, "linear", "logarithmic"],
}
VALID_POP = [1, 0.5, 100, 1e4, True, np.float64(2.0), ("dict", [1.0, 2.0], [1.0], True), ("obj", [1.0, 3.0], [0.5])]
VAR_EXTRA = {"rescaling_intervals": [0, 1, 5, 1000], "rescaling_iterations": [0, 1, 5],
             "match_segregating_sites": [True, False], "regularise_roots": [True, False],
             "singletons_phased": [True]}
IO_EXTRA = {"outside_standardize": [True, False], "ignore_oldest_root": [True, False]}
DISCRETE_EXTRA = {"cache_inside": [True, False]}      # undocumented, named by both discrete wrappers


def enc_pop(x):
    if x is None:
        return None
    if isinstance(x, tuple):
        if x[0] == "dict":
            return {"k": "dict", "sizes": x[1], "breaks": x[2], "ok": x[3]}
        if x[0] == "obj":
            return {"k": "obj", "sizes": x[1], "breaks": x[2]}
        if x[0] == "ndarray":
            return {"k": "ndarray", "sizes": x[1]}
    return V(x)


def enc(name, x):
    if name in ("probability_space",):
        return x
    return V(x)


def valid_params(rng, method):
    """a documented-valid parameter set for the method (method may be None = default)"""
    p = {}
    m = method or "variational_gamma"
    if method is not None:
        p["method"] = method
    elif rng.random() < 0.5:
        p["method"] = None
    p["mutation_rate"] = V(rng.choice(VALID["mutation_rate"]))
    for k in ("min_branch_length", "constr_iterations", "allow_unary", "return_fit", "return_likelihood"):
        if rng.random() < 0.5:
            p[k] = V(rng.choice(VALID[k]))
    if m == "variational_gamma":
        for k in ("max_iterations", "max_shape"):
            if rng.random() < 0.5:
                p[k] = V(rng.choice(VALID[k]))
        for k, vs in VAR_EXTRA.items():
            if rng.random() < 0.3:
                p[k] = V(rng.choice(vs))
        if "max_iterations" not in p or p["max_iterations"] is None:
            p["max_iterations"] = V(rng.choice([1, 2, 3]))     # keep accepted runs fast
    else:
        p["population_size"] = enc_pop(rng.choice(VALID_POP))
        for k in ("eps", "num_threads"):
            if rng.random() < 0.4:
                p[k] = V(rng.choice(VALID[k]))
        if rng.random() < 0.4:
            p["probability_space"] = rng.choice(VALID["probability_space"])
        if m == "inside_outside":
            for k, vs in IO_EXTRA.items():
                if rng.random() < 0.3:
                    p[k] = V(rng.choice(vs))
        if rng.random() < 0.2:
            p["cache_inside"] = rng.choice([True, False])
    if rng.random() < 0.3:
        p["time_units"] = rng.choice(["generations", "years"])
    if rng.random() < 0.3:
        p["record_provenance"] = rng.choice([True, False])
    if rng.random() < 0.2:
        p["set_metadata"] = rng.choice([True, False, None])
    return p


def accepted_by(method):
    """keywords the method's call chain names"""
    common = {"method", "mutation_rate", "recombination_rate", "time_units", "constr_iterations",
              "min_branch_length", "set_metadata", "return_fit", "return_likelihood", "allow_unary",
              "progress", "record_provenance", "population_size", "priors", "return_posteriors"}
    m = method or "variational_gamma"
    if m == "variational_gamma":
        return common | {"max_iterations", "max_shape", "eps"} | set(VAR_EXTRA)
    if m == "inside_outside":
        return common | {"eps", "num_threads", "probability_space", "Ne", "cache_inside"} | set(IO_EXTRA)
    if m == "maximization":
        return common | {"eps", "num_threads", "probability_space", "Ne", "cache_inside"}
    return common


def malformed_case(rng, tspool):
    """one call description: a valid base with 0-3 deviations from the boundary pools"""
    r = rng.random()
    if r < 0.08:
        method = rng.choice(["foo", "Variational_gamma", "", "inside-outside"])
    elif r < 0.2:
        method = None
    else:
        method = rng.choice(["variational_gamma", "variational_gamma", "inside_outside", "maximization"])
    base_m = method if method in METHODS else None
    p = valid_params(rng, base_m)
    if method not in METHODS and method is not None:
        p["method"] = method
    ndev = rng.choice([0, 1, 1, 1, 2, 2, 3])
    m_eff = base_m or "variational_gamma"
    common = ["mutation_rate", "mutation_rate", "min_branch_length", "min_branch_length", "constr_iterations",
              "constr_iterations", "recombination_rate", "population_size", "priors", "allow_unary",
              "return_fit", "return_likelihood", "return_posteriors", "eps"]
    if m_eff == "variational_gamma":
        relevant = common + ["max_iterations", "max_iterations", "max_iterations", "max_shape", "var_extra"]
    else:
        relevant = common + ["population_size", "population_size", "Ne", "probability_space", "probability_space",
                             "num_threads", "mutation_rate"]
        if m_eff == "inside_outside":
            relevant.append("io_extra")
    names = list(POOL) + ["population_size", "priors", "var_extra", "io_extra"]
    for _ in range(ndev):
        k = rng.choice(relevant) if rng.random() < 0.8 else rng.choice(names)
        if k == "population_size":
            p[k] = enc_pop(rng.choice(POP_POOL))
        elif k == "priors":
            p[k] = "grid"
        elif k == "var_extra":
            kk = rng.choice(list(VAR_EXTRA))
            p[kk] = V(rng.choice(VAR_EXTRA[kk]))
        elif k == "io_extra":
            kk = rng.choice(list(IO_EXTRA))
            p[kk] = V(rng.choice(IO_EXTRA[kk]))
        else:
            x = rng.choice(POOL[k])
            p[k] = enc(k, x)
    if "priors" in p and p["priors"] == "grid" and m_eff != "variational_gamma" and rng.random() < 0.7:
        p.pop("population_size", None)      # priors instead of a population size: the valid combination
    # "passed as None" == "absent" only for keywords the method names: drop foreign Nones
    acc = accepted_by(m_eff if method in METHODS or method is None else None)
    for k in list(p):
        if p[k] is None and k not in acc:
            del p[k]
    kind = rng.choice(["multi", "multi", "multi", "multi", "single", "single", "nomut_multi", "nomut_single",
                       "historical", "historical", "unary", "sitesnomut_bare", "sitesnomut_cleared",
                       "sitesnomut_subset", "rootmuts_only", "isolated_only"])
    case = {"params": p, "ts_kind": kind, "ts_index": rng.randrange(len(tspool[kind]))}
    # entry point: date(), or the wrapper itself when the method is a known one
    if method in METHODS and rng.random() < 0.35:
        case["entry"] = method
    else:
        case["entry"] = "date"
    return case


def finalize_case(case, ts):
    """resolve ts-dependent bits: priors grid only when it can be built; compute facts"""
    p = case["params"]
    m = p.get("method")
    if p.get("priors") == "grid":
        try:
            priors_for(ts)
        except Exception:   # noqa: BLE001
            if m in ("inside_outside", "maximization"):
                del p["priors"]          # an unusable priors object is outside the domain
            else:
                p["priors"] = "not-a-grid"
    au = p.get("allow_unary")
    case["facts"] = ts_facts(ts, bool(PY(au)) if au is not None else False)
    return case


def show_case(case):
    p = case["params"]
    d = {}
    for k, v in p.items():
        if isinstance(v, dict) and "k" in v and v["k"] in ("bool", "npbool", "int", "npint", "float", "npfloat"):
            d[k] = show(v)
        else:
            d[k] = v
    return {"entry": case.get("entry", "date"), "ts": case.get("ts_kind"), "params": d}


# ---------------------------------------------------------------- pathological valid inputs
def _isolate(ts, node, a, b):
    """remove the ancestry of `node` over [a, b) (missing data), keep everything else"""
    tables = ts.dump_tables()
    edges = tables.edges.copy()
    tables.edges.clear()
    for e in edges:
        if e.child != node or e.right <= a or e.left >= b:
            tables.edges.append(e)
            continue
        if e.left < a:
            tables.edges.add_row(e.left, a, e.parent, e.child)
        if e.right > b:
            tables.edges.add_row(b, e.right, e.parent, e.child)
    tables.sort()
    tables.build_index()
    tables.compute_mutation_parents()
    return tables.tree_sequence()


def _add_root_mutations(rng, ts, k):
    """k extra sites carrying a mutation above a root (or on an isolated sample)"""
    import tskit
    tables = ts.dump_tables()
    used = set(tables.sites.position)
    L = ts.sequence_length
    for _ in range(k):
        for _try in range(20):
            x = rng.random() * L
            if float(int(x)) not in used and int(x) < L:
                x = float(int(x))
            if x not in used:
                break
        else:
            continue
        used.add(x)
        tree = ts.at(x)
        roots = list(tree.roots)
        if not roots:
            continue
        s = tables.sites.add_row(x, "0")
        tables.mutations.add_row(site=s, node=rng.choice(roots), derived_state="1", time=tskit.UNKNOWN_TIME)
    tables.sort()
    tables.build_index()
    tables.compute_mutation_parents()
    return tables.tree_sequence()


def patho_ts(rng):
    """a valid tskit tree sequence of a pathological kind; returns (ts, label)"""
    import msprime
    import tskit
    kind = rng.choice(["tiny", "tiny", "gaps", "missing", "rootmuts", "historical", "diploid", "diploid_missing",
                       "internal", "unary", "fewmuts", "two", "contcoord", "bigL", "manymuts", "polytomy", "lonely",
                       "sitesnomut"])
    seed = rng.randrange(1, 2**31 - 1)
    seed2 = rng.randrange(1, 2**31 - 1)
    n = rng.randint(2, 6)
    L = rng.choice([2, 5, 10, 30, 100, 1000])
    rec = rng.choice([0.0, 0.5, 2.0, 10.0]) / L
    mu = rng.choice([0.3, 1.0, 3.0, 10.0]) / L
    if kind in ("tiny", "gaps", "missing", "rootmuts", "fewmuts", "polytomy", "internal", "unary"):
        model = None
        if kind == "polytomy":
            model = msprime.BetaCoalescent(alpha=1.05 + rng.random() * 0.5)
            n = rng.randint(4, 8)
        ts = msprime.sim_ancestry(n, ploidy=1, sequence_length=L, recombination_rate=rec, random_seed=seed,
                                  population_size=1, model=model)
        if kind == "fewmuts":
            mu = 0.5 / L / max(ts.first().total_branch_length, 1e-9)
        ts = msprime.sim_mutations(ts, rate=mu, random_seed=seed2)
        if kind == "gaps" and L >= 5:
            a = rng.randint(1, int(L) - 2)
            b = rng.randint(a + 1, int(L) - 1)
            ts = ts.delete_intervals([[a, b]], simplify=True)
        if kind == "missing":
            s = rng.choice(list(ts.samples()))
            a = rng.randint(0, int(L) - 1)
            b = rng.randint(a + 1, int(L))
            ts = _isolate(ts, s, a, b).simplify()
        if kind == "rootmuts":
            ts = _add_root_mutations(rng, ts, rng.randint(1, 3))
        if kind == "internal":
            ts = gen.internal_samples(rng, ts, k=rng.randint(1, 2))
        if kind == "unary":
            keep = list(ts.samples())[: max(2, n - 1)]
            ts = ts.simplify(samples=keep, keep_unary=True)
        return ts, kind
    if kind == "sitesnomut":
        k2 = rng.choice(["sitesnomut_bare", "sitesnomut_cleared", "sitesnomut_subset", "rootmuts_only", "isolated_only"])
        return sites_without_mutations(rng, k2), k2
    if kind == "lonely":
        # a stretch of genome where a single sample hangs below a unary root (the others are missing)
        n = rng.randint(2, 3)
        L = max(L, 10)
        ts = msprime.sim_ancestry(n, ploidy=1, sequence_length=L, recombination_rate=0, random_seed=seed,
                                  population_size=1)
        ts = msprime.sim_mutations(ts, rate=mu, random_seed=seed2)
        a = rng.randint(1, int(L) - 3)
        b = rng.randint(a + 1, int(L) - 1)
        for s_ in list(ts.samples())[1:]:
            ts = _isolate(ts, s_, a, b)
        return ts, kind
    if kind == "two":
        ts = msprime.sim_ancestry(2, ploidy=1, sequence_length=L, recombination_rate=rec, random_seed=seed,
                                  population_size=1)
        return msprime.sim_mutations(ts, rate=mu, random_seed=seed2), kind
    if kind == "historical":
        k = rng.randint(1, n - 1) if n > 2 else 1
        t_old = rng.choice([0.01, 0.5, 3.0, 50.0, 1e4])
        samples = [msprime.SampleSet(max(n - k, 1), time=0, ploidy=1), msprime.SampleSet(k, time=t_old, ploidy=1)]
        ts = msprime.sim_ancestry(samples=samples, sequence_length=L, recombination_rate=rec, random_seed=seed,
                                  population_size=1)
        return msprime.sim_mutations(ts, rate=mu / (1.0 + t_old), random_seed=seed2), kind
    if kind in ("diploid", "diploid_missing"):
        ts = msprime.sim_ancestry(rng.randint(1, 3), ploidy=2, sequence_length=L, recombination_rate=rec,
                                  random_seed=seed, population_size=1)
        ts = msprime.sim_mutations(ts, rate=mu, random_seed=seed2)
        if kind == "diploid_missing" and L >= 5:
            s = rng.choice(list(ts.samples()))
            a = rng.randint(0, int(L) - 2)
            b = rng.randint(a + 1, int(L) - 1)
            ts = _isolate(ts, s, a, b).simplify(filter_individuals=False)
        return ts, kind
    if kind == "contcoord":
        ts = msprime.sim_ancestry(n, ploidy=1, sequence_length=L, recombination_rate=max(rec, 1.0 / L),
                                  random_seed=seed, population_size=1, discrete_genome=False)
        return msprime.sim_mutations(ts, rate=mu, random_seed=seed2, discrete_genome=False), kind
    if kind == "bigL":
        L = rng.choice([1e6, 1e9])
        ts = msprime.sim_ancestry(n, ploidy=1, sequence_length=L, recombination_rate=2.0 / L, random_seed=seed,
                                  population_size=1)
        return msprime.sim_mutations(ts, rate=3.0 / L, random_seed=seed2), kind
    if kind == "manymuts":
        ts = msprime.sim_ancestry(n, ploidy=1, sequence_length=max(L, 100), recombination_rate=rec, random_seed=seed,
                                  population_size=1)
        return msprime.sim_mutations(ts, rate=100.0 / max(L, 100), random_seed=seed2), kind
    raise AssertionError(kind)


def decorate(rng, ts, keep_mutation_free=False, p=0.3):
    """gen.exotic on ~40% of the inputs: extra flag bits, renumbered nodes, mutations above roots,
    mutation-free sites, unknown mutation times, arbitrary allele states, populations"""
    if rng.random() >= 0.4:
        return ts, []
    kinds = [k for k in gen.EXOTIC_KINDS if not (keep_mutation_free and k == "root_mutations")]
    if ts.sequence_length > 1e5:
        # these two enumerate every integer position of the genome
        kinds = [k for k in kinds if k not in ("root_mutations", "monomorphic_sites")]
    try:
        return gen.exotic(rng, ts, kinds=kinds, p=p)
    except Exception:     # noqa: BLE001 - a decoration that does not apply to this input
        return ts, []


# ---------------------------------------------------------------- metadata-schema dimension
STRUCT_MNVR = {"codec": "struct", "type": "object",
               "properties": {"mn": {"type": "number", "binaryFormat": "d"}, "vr": {"type": "number", "binaryFormat": "d"}},
               "additionalProperties": False}
STRUCT_OTHER = {"codec": "struct", "type": "object",
                "properties": {"x": {"type": "integer", "binaryFormat": "i"}}, "additionalProperties": False}
STRUCT_NOPROPS = {"codec": "struct", "type": "object", "properties": {}, "additionalProperties": False}
JSON_STRICT = {"codec": "json", "type": "object",
               "properties": {"mn": {"type": "number"}, "vr": {"type": "number"}},
               "required": ["mn", "vr"], "additionalProperties": False}
JSON_PERMISSIVE = {"codec": "json"}
META_KINDS = ("none_empty", "none_raw", "json_empty", "json_some", "json_all", "json_strict_empty",
              "json_strict_filled", "struct_mnvr_empty", "struct_mnvr_filled", "struct_other_empty",
              "struct_other_filled", "struct_noprops")


def meta_rows(rng, kind, n):
    """(schema dict or None, list of row bytes): every row DECODES under its schema"""
    import tskit
    if kind == "none_empty":
        return None, [b""] * n
    if kind == "none_raw":
        return None, [rng.choice([b"abc", b"\x00\x01", b"{}"]) for _ in range(n)]
    if kind == "json_empty":
        return JSON_PERMISSIVE, [b""] * n
    if kind in ("json_some", "json_all"):
        rows = []
        for i in range(n):
            if kind == "json_some" and rng.random() < 0.5:
                rows.append(b"")
            else:
                rows.append(json.dumps(rng.choice([{"name": "n%d" % i}, {"mn": 1.5, "vr": 2.0, "k": [1, 2]}, {}])).encode())
        return JSON_PERMISSIVE, rows
    if kind == "json_strict_empty":
        return JSON_STRICT, [b""] * n
    if kind == "json_strict_filled":
        sch = tskit.MetadataSchema(JSON_STRICT)
        return JSON_STRICT, [sch.validate_and_encode_row({"mn": float(i), "vr": 0.5}) for i in range(n)]
    if kind == "struct_mnvr_empty":
        return STRUCT_MNVR, [b""] * n
    if kind == "struct_mnvr_filled":
        sch = tskit.MetadataSchema(STRUCT_MNVR)
        return STRUCT_MNVR, [sch.validate_and_encode_row({"mn": float(i), "vr": 0.25}) for i in range(n)]
    if kind == "struct_other_empty":
        return STRUCT_OTHER, [b""] * n
    if kind == "struct_other_filled":
        sch = tskit.MetadataSchema(STRUCT_OTHER)
        return STRUCT_OTHER, [sch.validate_and_encode_row({"x": i}) for i in range(n)]
    if kind == "struct_noprops":
        return STRUCT_NOPROPS, [b""] * n
    raise ValueError(kind)


def apply_meta(ts, nodes=None, mutations=None):
    """install (schema, rows) on the node and/or mutation table"""
    import tskit
    tables = ts.dump_tables()
    for table, spec in ((tables.nodes, nodes), (tables.mutations, mutations)):
        if spec is None:
            continue
        schema, rows = spec
        if len(rows) != table.num_rows:
            continue
        table.metadata_schema = tskit.MetadataSchema(schema)
        table.packset_metadata(list(rows))
    return tables.tree_sequence()


def meta_decorate(rng, ts):
    """independent metadata state for the node and the mutation table; returns (ts, (kind_nodes, kind_mutations))"""
    kn = rng.choice(META_KINDS)
    km = rng.choice(META_KINDS)
    ts2 = apply_meta(ts, meta_rows(rng, kn, ts.num_nodes), meta_rows(rng, km, ts.num_mutations))
    return ts2, (kn, km)


def meta_dict(ts):
    """the metadata state of a tree sequence as plain data (for replay files)"""
    out = {}
    for name, table in (("nodes", ts.tables.nodes), ("mutations", ts.tables.mutations)):
        sch = table.metadata_schema.schema
        rows = [bytes(r).hex() for r in __import__("tskit").unpack_bytes(table.metadata, table.metadata_offset)]
        if sch is not None or any(rows):
            out[name] = {"schema": sch, "rows": rows}
    return out


def meta_from_dict(ts, d):
    if not d:
        return ts
    spec = {}
    for name in ("nodes", "mutations"):
        if name in d:
            spec[name] = (d[name]["schema"], [bytes.fromhex(h) for h in d[name]["rows"]])
    return apply_meta(ts, spec.get("nodes"), spec.get("mutations"))



def patho_case(rng):
    """(case, ts): a valid call on a pathological valid tree sequence"""
    for _ in range(50):
        ts, label = patho_ts(rng)
        if ts.num_mutations <= 400 and ts.num_trees <= 60 and ts.num_samples >= 2:
            break
    ts, ex = decorate(rng, ts, keep_mutation_free=(ts.num_mutations == 0))
    if ex:
        label = label + "+" + "+".join(k[:4] for k in ex)
    meta = None
    if rng.random() < 0.5:
        ts, meta = meta_decorate(rng, ts)
    method = rng.choice(["variational_gamma", "variational_gamma", "variational_gamma", None,
                         "inside_outside", "maximization"])
    if meta is not None:
        method = rng.choice(["variational_gamma", "inside_outside", "maximization"])
    m = method or "variational_gamma"
    p = {}
    if method is not None:
        p["method"] = method
    L = ts.sequence_length
    style = rng.choice(["natural", "natural", "natural", "small", "large", "tiny", "huge"])
    base = rng.choice([0.3, 1.0, 3.0]) / L
    rate = {"natural": base, "small": base * 1e-6, "large": base * 1e6,
            "tiny": base * 10.0 ** (-rng.randint(8, 14)), "huge": base * 10.0 ** rng.randint(8, 14)}[style]
    p["mutation_rate"] = V(float(rate))
    if rng.random() < 0.3:
        p["min_branch_length"] = V(rng.choice([1e-12, 1e-8, 1e-6, 1e-3, 1.0, 100.0]))
    if rng.random() < 0.3:
        p["constr_iterations"] = V(rng.choice([0, 1, 5, 100]))
    if label in ("unary", "lonely") or rng.random() < 0.1:
        p["allow_unary"] = V(rng.choice([True, True, False]))
    if rng.random() < 0.3:
        p["return_fit"] = V(True)
    if rng.random() < 0.3:
        p["return_likelihood"] = V(True)
    if rng.random() < 0.2:
        p["set_metadata"] = rng.choice([True, False])
    if m == "variational_gamma":
        if rng.random() < 0.6:
            p["max_iterations"] = V(rng.choice([1, 2, 5, 10]))
        if rng.random() < 0.5:
            p["rescaling_intervals"] = V(rng.choice([0, 1, 2, 5, 50, 1000]))
        if rng.random() < 0.3:
            p["rescaling_iterations"] = V(rng.choice([0, 1, 3, 5]))
        if rng.random() < 0.3:
            p["max_shape"] = V(rng.choice([2, 10, 100, 1000, 1e6]))
        if rng.random() < 0.25:
            p["match_segregating_sites"] = V(True)
        if rng.random() < 0.25:
            p["regularise_roots"] = V(False)
        if label.startswith("diploid") and rng.random() < 0.7:
            p["singletons_phased"] = V(False)
    else:
        p["population_size"] = enc_pop(rng.choice([1, 0.5, 100, 1e4, 1e8, 1e12,
                                                   ("dict", [1.0, 2.0], [1.0], True)]))
        if rng.random() < 0.3:
            p["eps"] = V(rng.choice([1e-8, 1e-6, 1e-3]))
        if rng.random() < 0.4:
            p["probability_space"] = rng.choice(["linear", "logarithmic"])
        if m == "inside_outside" and rng.random() < 0.3:
            p["ignore_oldest_root"] = V(True)
        if m == "inside_outside" and rng.random() < 0.3:
            p["outside_standardize"] = V(False)
        if rng.random() < 0.25:
            p["cache_inside"] = True
        if rng.random() < 0.15:
            p["num_threads"] = V(1)
    # rarely: extreme but valid-by-the-letter values (known findings K3, K3b, K4, K35b, K35d)
    if rng.random() < 0.06:
        which = rng.choice(["rate", "max_shape", "mbl", "nptypes"])
        if which == "rate":
            p["mutation_rate"] = V(rng.choice([INF, 1e-300, 1e300, 5e-324, 1e-150, 1e150]))
        elif which == "max_shape" and m == "variational_gamma":
            p["max_shape"] = V(rng.choice([1, 1.0, 0.5, 1.0000001, 1.5, INF]))
        elif which == "mbl":
            p["min_branch_length"] = V(rng.choice([INF, 1e-300, 1e300]))
        elif which == "nptypes":
            if m == "variational_gamma":
                p["max_iterations"] = V(np.int64(2))
            else:
                p["population_size"] = rng.choice([V(np.int64(2)), {"k": "ndarray", "sizes": [1.0]}])
    if meta is not None:
        p["set_metadata"] = rng.choice([None, True, False])
        if p["set_metadata"] is None and rng.random() < 0.5:
            del p["set_metadata"]
    case = {"params": p, "entry": "date", "ts_kind": "patho:" + label, "rate_style": style}
    if meta is not None:
        case["meta"] = list(meta)
    return case, ts
