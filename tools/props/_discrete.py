"""Shared by C10 / C11 / C12 / C13 / C38: inputs for the discrete-time algorithms of
tsdate/discrete.py (tiny tree sequences + a prior grid given as plain numbers), runners
for the implementation, the data handed to the Gallina model coq/model/Discrete.v
(edge orders, span fractions, scipy's Poisson values as a lookup table) and independent
reference computations (brute-force marginals, the documented maximisation rule)."""
import itertools
import math

import numpy as np

from vlib.coqfmt import cnat, cbool, clist


def cfloat(x):
    """exact binary64 literal as integers (model/DiscreteFloat.v [fl] / [nfl]): parses much faster
    than a hexadecimal float literal"""
    x = float(x)
    if math.isnan(x):
        return "nan"
    if math.isinf(x):
        return "infinity" if x > 0 else "neg_infinity"
    if x == 0.0:
        return "(-0)%float" if math.copysign(1.0, x) < 0 else "0%float"
    m, e = math.frexp(abs(x))
    M = int(m * 9007199254740992.0)   # 2^53, exact
    assert math.ldexp(M, e - 53) == abs(x)
    return "(%s %d%%uint63 %d%%uint63)" % ("nfl" if x < 0 else "fl", M, e - 53 + 2101)

LIN, LOG = "linear", "logarithmic"
PRELUDE = "From Coq Require Import Uint63.\n"     # for the integer-encoded float literals


# ------------------------------------------------------------------ tree shapes
def _partitions(n, maxpart):
    """multisets of positive integers summing to n, parts <= maxpart, as non-increasing tuples"""
    if n == 0:
        yield ()
        return
    for p in range(min(n, maxpart), 0, -1):
        for rest in _partitions(n - p, p):
            yield (p,) + rest


_SHAPES = {}


def tree_shapes(n):
    """all unordered rooted tree shapes with n leaves and no unary node; leaf = ()"""
    if n in _SHAPES:
        return _SHAPES[n]
    if n == 1:
        _SHAPES[1] = [()]
        return _SHAPES[1]
    out = set()
    for part in _partitions(n, n - 1):
        if len(part) < 2:
            continue
        pools = [tree_shapes(k) for k in part]
        for combo in itertools.product(*pools):
            out.add(tuple(sorted(combo, key=repr)))
    _SHAPES[n] = sorted(out, key=repr)
    return _SHAPES[n]


def shape_to_tables(shape, rng=None, L=1.0, jitter=True):
    """nodes/edges of one tree: leaves are samples 0..n-1 at time 0; internal nodes get
    increasing ids in post-order and times above their children"""
    leaves = []
    internal = []   # (children ids, time)
    counter = [0]

    def nleaves(s):
        return 1 if s == () else sum(nleaves(c) for c in s)
    n = nleaves(shape)
    next_internal = [n]
    times = {}
    edges = []

    def build(s):
        if s == ():
            u = counter[0]
            counter[0] += 1
            times[u] = 0.0
            return u
        kids = [build(c) for c in s]
        u = next_internal[0]
        next_internal[0] += 1
        t = max(times[k] for k in kids) + (1.0 if not jitter or rng is None else 0.2 + rng.random())
        times[u] = round(t, 3)
        for k in kids:
            edges.append([0.0, float(L), u, k])
        return u
    build(shape)
    num = next_internal[0]
    return {
        "L": float(L),
        "nodes_time": [times[u] for u in range(num)],
        "nodes_flags": [1 if u < n else 0 for u in range(num)],
        "edges": edges,
        "sites": [],
        "mutations": [],
    }


def add_mutations(d, counts, rng):
    """put counts[k] mutations on the k-th edge of d (one site per mutation, positions inside
    the edge's interval, all distinct)"""
    used = set(d["sites"])
    sites = list(d["sites"])
    muts = list(d["mutations"])
    for (l, r, _p, c), k in zip(d["edges"], counts):
        for _ in range(k):
            for _try in range(100):
                x = l + (r - l) * rng.random()
                x = round(x, 6)
                if l <= x < r and x not in used:
                    break
            else:
                continue
            used.add(x)
            sites.append(x)
            muts.append([len(sites) - 1, c])
    d = dict(d)
    _extend_mut_fields(d, len(muts) - len(d["mutations"]))
    d["sites"] = sites
    d["mutations"] = muts
    return d


def add_offedge_mutations(d, rng, k):
    """k mutations that sit on NO edge (valid tskit input): above the root of the local tree at a
    fresh position, or -- where a node is in no edge at that position -- on that isolated node.
    They must not enter any edge likelihood."""
    ts = ts_from_dict(d)
    used = set(d["sites"])
    sites = list(d["sites"])
    muts = list(d["mutations"])
    L = d["L"]
    for _ in range(k):
        for _try in range(100):
            x = round(rng.random() * L, 6)
            if 0 <= x < L and x not in used:
                break
        else:
            continue
        tree = ts.at(x)
        cands = list(tree.roots)
        # samples that are isolated in this tree are roots too; any root will do
        u = rng.choice(cands)
        used.add(x)
        sites.append(x)
        muts.append([len(sites) - 1, int(u)])
    out = dict(d)
    _extend_mut_fields(out, len(muts) - len(d["mutations"]))
    out["sites"] = sites
    out["mutations"] = muts
    return canon(out)


def ts_from_dict(d):
    """tree sequence from the plain description.  Optional decorations (all default to the plain
    form): flags_full (node flags incl. bits other than NODE_IS_SAMPLE), population / npop,
    site_anc / mut_der (allele strings), mut_time (None = tskit.UNKNOWN_TIME)."""
    import tskit
    tables = tskit.TableCollection(d["L"])
    npop = d.get("npop", 0)
    if npop:
        tables.populations.metadata_schema = tskit.MetadataSchema.permissive_json()
        for i in range(npop):
            tables.populations.add_row(metadata={"name": "p%d" % i, "description": None})
    ff = d.get("flags_full")
    pop = d.get("population")
    for u, (t, f) in enumerate(zip(d["nodes_time"], d["nodes_flags"])):
        tables.nodes.add_row(flags=(ff[u] if ff else f), time=t, population=(pop[u] if pop else -1))
    for l, r, p, c in d["edges"]:
        tables.edges.add_row(l, r, p, c)
    order = sorted(range(len(d["sites"])), key=lambda i: d["sites"][i])
    newid = {}
    anc = d.get("site_anc")
    for k, i in enumerate(order):
        tables.sites.add_row(d["sites"][i], anc[i] if anc else "0")
        newid[i] = k
    der = d.get("mut_der")
    mt = d.get("mut_time")
    for k, (s, u) in enumerate(d["mutations"]):
        tm = tskit.UNKNOWN_TIME if (not mt or mt[k] is None) else mt[k]
        tables.mutations.add_row(site=newid[s], node=u, derived_state=(der[k] if der else "1"), time=tm)
    tables.sort()
    tables.build_index()
    tables.compute_mutation_parents()
    return tables.tree_sequence()


def ts_to_dict(ts):
    import tskit
    d = {
        "L": float(ts.sequence_length),
        "nodes_time": [float(x) for x in ts.nodes_time],
        "nodes_flags": [int(x) & 1 for x in ts.nodes_flags],      # 1 = sample (fixed node)
        "edges": [[float(e.left), float(e.right), int(e.parent), int(e.child)] for e in ts.edges()],
        "sites": [float(s.position) for s in ts.sites()],
        "mutations": [[int(m.site), int(m.node)] for m in ts.mutations()],
    }
    if any(int(x) & ~1 for x in ts.nodes_flags):
        d["flags_full"] = [int(x) for x in ts.nodes_flags]
    if ts.num_populations:
        d["npop"] = int(ts.num_populations)
        d["population"] = [int(x) for x in ts.nodes_population]
    anc = [s.ancestral_state for s in ts.sites()]
    if any(a != "0" for a in anc):
        d["site_anc"] = anc
    der = [m.derived_state for m in ts.mutations()]
    if any(a != "1" for a in der):
        d["mut_der"] = der
    mt = [None if tskit.is_unknown_time(m.time) else float(m.time) for m in ts.mutations()]
    if any(x is not None for x in mt):
        d["mut_time"] = mt
    return d


def _extend_mut_fields(d, k):
    """k mutations (each on a new site) were appended to d: keep the optional per-site /
    per-mutation lists aligned"""
    if "site_anc" in d:
        d["site_anc"] = list(d["site_anc"]) + ["0"] * k
    if "mut_der" in d:
        d["mut_der"] = list(d["mut_der"]) + ["1"] * k
    if "mut_time" in d:
        d["mut_time"] = list(d["mut_time"]) + [None] * k


def exotic_dict(rng, d, kinds=None, p=0.5):
    """valid-but-unusual decorations from vlib.gen.exotic (extra node flag bits, ALL nodes renumbered
    so that samples are not listed first, mutations above local roots, mutation-free sites, allele
    strings, populations; 'unknown_mutation_times' drops known times); returns (dict, applied)"""
    from vlib import gen
    ts, applied = gen.exotic(rng, ts_from_dict(d), kinds=kinds, p=p)
    return (ts_to_dict(ts) if applied else d), applied


def add_unary(d, rng, k=1):
    """split k edges of a single tree by a new non-sample node with ONE child (valid: tsdate's
    discrete passes take explicit priors for such nodes)"""
    d = dict(d)
    d["nodes_time"] = list(d["nodes_time"])
    d["nodes_flags"] = list(d["nodes_flags"])
    edges = [list(e) for e in d["edges"]]
    for _ in range(k):
        i = rng.randrange(len(edges))
        l, r, p, c = edges[i]
        tp, tc = d["nodes_time"][p], d["nodes_time"][c]
        u = len(d["nodes_time"])
        d["nodes_time"].append(round(tc + (tp - tc) * (0.25 + 0.5 * rng.random()), 6))
        d["nodes_flags"].append(0)
        for key, dflt in (("flags_full", 0), ("population", -1)):
            if key in d:
                d[key] = list(d[key]) + [dflt]
        edges[i] = [l, r, u, c]
        edges.append([l, r, p, u])
    d["edges"] = edges
    # mutations stay on their node: those on c are now on the edge u->c
    return canon(d)


def canon(d):
    """dict whose edge / site / mutation order is the tree sequence's own (edge ids = positions)"""
    return ts_to_dict(ts_from_dict(d))


def renumber(d, rng, perm=None):
    """permute the ids of the non-sample nodes (samples keep theirs); returns (new dict, old->new map)"""
    n = len(d["nodes_time"])
    ns = [u for u in range(n) if not d["nodes_flags"][u]]
    if perm is None:
        tgt = ns[:]
        rng.shuffle(tgt)
        perm = dict(zip(ns, tgt))
    m = {u: perm.get(u, u) for u in range(n)}
    times = [0.0] * n
    flags = [0] * n
    for u in range(n):
        times[m[u]] = d["nodes_time"][u]
        flags[m[u]] = d["nodes_flags"][u]
    out = dict(d)
    out["nodes_time"] = times
    out["nodes_flags"] = flags
    for key in ("flags_full", "population"):
        if key in d:
            lst = [None] * n
            for u in range(n):
                lst[m[u]] = d[key][u]
            out[key] = lst
    out["edges"] = [[l, r, m[p], m[c]] for l, r, p, c in d["edges"]]
    out["mutations"] = [[s, m[u]] for s, u in d["mutations"]]
    return canon(out), m


def retime(d, rng, mode):
    """new times for the non-sample nodes that keep the tree sequence valid.
    'monotone': an increasing function of the old times (order kept);
    'free': any times with parent > child (order between unrelated nodes may change);
    'ties': integer heights above the children, so that unrelated nodes have exactly tied times"""
    n = len(d["nodes_time"])
    t = list(d["nodes_time"])
    if mode == "monotone":
        a = 0.3 + 3 * rng.random()
        pw = rng.choice([0.5, 1.0, 2.0])
        new = [round(a * (x ** pw), 6) if not d["nodes_flags"][u] else x for u, x in enumerate(t)]
        # keep strictness
        ok = all(new[p] > new[c] for _l, _r, p, c in d["edges"])
        if not ok:
            return None
    else:
        kids = {}
        for _l, _r, p, c in d["edges"]:
            kids.setdefault(p, set()).add(c)
        new = [None] * n
        for u in sorted(range(n), key=lambda u: t[u]):   # children (younger) first
            if d["nodes_flags"][u]:
                new[u] = t[u]
            else:
                base = max([new[c] for c in kids.get(u, ())] or [0.0])
                # 'ties': integer heights, so unrelated nodes share their time exactly
                new[u] = base + 1.0 if mode == "ties" else round(base + 0.05 + 2 * rng.random(), 6)
    out = dict(d)
    out["nodes_time"] = new
    out.pop("mut_time", None)      # known mutation times would no longer fit the branches
    return canon(out)


def reattach_family(rng):
    """hand-built family: node u = (0,1) hangs under the root R on [0,a) and on [b,L) and under another
    parent A on [a,b) (a recombinant lineage re-attaching to the grand MRCA), so u has TWO edges from R;
    R is the oldest node and has the highest id.  Optionally extra samples under u / R."""
    L = float(rng.choice([10, 30, 100]))
    a = float(rng.randint(1, int(L) // 2 - 1)) if L > 4 else 1.0
    b = float(rng.randint(int(L) // 2 + 1, int(L) - 1))
    extra_u = rng.randint(0, 1)          # a third sample under u
    ns = 4 + extra_u
    u, A, R = ns, ns + 1, ns + 2
    times = [0.0] * ns + [round(0.5 + rng.random(), 3), round(2 + rng.random(), 3), round(4 + rng.random(), 3)]
    edges = [[0.0, L, u, 0], [0.0, L, u, 1], [a, b, A, u], [a, b, A, 2], [0.0, a, R, u], [b, L, R, u],
             [0.0, a, R, 2], [b, L, R, 2], [a, b, R, A], [0.0, L, R, 3]]
    if extra_u:
        edges.append([0.0, L, u, 4])
    d = {"L": L, "nodes_time": times, "nodes_flags": [1] * ns + [0, 0, 0], "edges": edges, "sites": [], "mutations": []}
    d = canon(d)
    return canon(add_mutations(d, [rng.choice([0, 0, 1, 1, 2, 3]) for _ in d["edges"]], rng))


def sim_dict(rng, n=None, trees="multi", big=False, rec_boost=False):
    """small msprime tree sequence (contemporaneous samples) as a dict"""
    from vlib import gen
    n = n or rng.randint(2, 6)
    for _ in range(50):
        L = rng.choice([4, 10, 50])
        rec = 0.0 if trees == "single" else rng.choice([0.5, 2.0, 6.0]) / L
        if rec_boost:
            L = 50
            rec = rng.choice([8.0, 15.0, 25.0]) / L
        ts = gen.sim_ts(rng, n=n, L=L, rec=rec, mu=rng.choice([0.3, 1.0, 3.0]) / L, historical=False,
                        multimerger=rng.random() < 0.3)
        # multiple-merger models can give huge times / thousands of mutations, which only makes the
        # linear space underflow: keep the inputs moderate
        if (ts.num_mutations <= 60 and ts.num_nodes <= 18) or (big and ts.num_mutations <= 400 and ts.num_nodes <= 120) \
                or (rec_boost and ts.num_mutations <= 80 and ts.num_nodes <= 32):
            break
    return ts_to_dict(ts)


# ------------------------------------------------------------------ cases
GRIDS = [
    [0.0, 1.2, 2.0],
    [0.0, 0.5, 1.0, 2.5],
    [0.0, 1.0],
    [0.0, 0.1, 0.7, 1.5, 4.0],
    [0.0, 0.3, 0.6, 1.1, 1.9, 3.2],
]


def random_grid(rng, gmax=6):
    if rng.random() < 0.5:
        g = rng.choice([x for x in GRIDS if len(x) <= gmax])
        return list(g)
    k = rng.randint(2, gmax)
    xs = [0.0]
    for _ in range(k - 1):
        xs.append(round(xs[-1] + 0.05 + rng.random() * 1.5, 4))
    return xs


def random_prior(rng, d, G, zero_first=None, zeros=0.05):
    """prior rows for the non-sample nodes: positive numbers, often 0 at the first timepoint
    (as the real conditional-coalescent grids are), a few other zeros, last entry positive"""
    pr = {}
    if zero_first is None:
        zero_first = rng.random() < 0.6
    for u, f in enumerate(d["nodes_flags"]):
        if f:
            continue
        row = [round(0.02 + rng.random(), 6) for _ in range(G)]
        if zero_first:
            row[0] = 0.0
        for i in range(1, G - 1):
            if rng.random() < zeros:
                row[i] = 0.0
        pr[str(u)] = row
    return pr


def random_eps(rng, grid):
    """eps classes: the usual small offsets, and (30%) a LARGE one, comparable to the grid spacing
    ({0.1, 0.3, 1, 3} x the median spacing), where an offset and e.g. a floor give different answers"""
    if rng.random() < 0.3:
        gaps = sorted(b - a for a, b in zip(grid, grid[1:]))
        med = gaps[len(gaps) // 2] if gaps else 1.0
        return round(rng.choice([0.1, 0.3, 1.0, 3.0]) * med, 6)
    return rng.choice([1e-6, 1e-8, 1e-3, 0.1])


def make_case(rng, d, grid=None, space=None, eps=None, mu=None, offedge=None, exotic=None, **opts):
    # half of the cases carry 1-3 mutations above a (local) root: they are on no edge
    if offedge is None:
        offedge = rng.choice([0, 0, 1, 2, 3])
    if offedge:
        d = add_offedge_mutations(d, rng, offedge)
    # ~15%: exactly tied times among unrelated non-sample nodes
    if opts.pop("ties", rng.random() < 0.15):
        d = retime(d, rng, "ties") or d
    # ~40%: valid-but-unusual decorations (vlib.gen.exotic); applied BEFORE priors are drawn, so the
    # prior rows, the references and the model all refer to the final node ids
    applied = []
    if exotic is None:
        exotic = rng.random() < 0.4
    if exotic:
        d, applied = exotic_dict(rng, d, p=0.5)
    G = None
    grid = grid or random_grid(rng)
    G = len(grid)
    ns = [u for u, f in enumerate(d["nodes_flags"]) if not f]
    order = ns[:]
    rng.shuffle(order)
    span = d["L"]
    case = {
        "ts": d,
        "grid": grid,
        "prior": random_prior(rng, d, G),
        "nonfixed_order": order,
        "mu": mu if mu is not None else round(rng.choice([0.2, 1.0, 3.0]) / span, 6),
        "eps": eps if eps is not None else random_eps(rng, grid),
        "space": space or rng.choice([LIN, LOG]),
        "offedge_mutations": len(d["mutations"]) - sum(edge_mutation_counts(d)),
        "exotic": applied,
    }
    case.update(opts)
    return case


def make_priors(case, ts):
    """a fresh NodeTimeValues (the algorithms overwrite it when they change space)"""
    from tsdate.node_time_class import NodeTimeValues
    nonfixed = np.array(case["nonfixed_order"], dtype=np.int64)
    pr = NodeTimeValues(ts.num_nodes, nonfixed, np.array(case["grid"], dtype=float))
    for u in case["nonfixed_order"]:
        pr[u] = np.array(case["prior"][str(u)], dtype=float)
    return pr


def make_fit(case, ts=None):
    """Likelihoods + BeliefPropagation exactly as core.DiscreteTimeMethod.main_algorithm"""
    from tsdate import discrete
    ts = ts or ts_from_dict(case["ts"])
    cls = discrete.Likelihoods if case["space"] == LIN else discrete.LogLikelihoods
    lls = cls(ts, np.array(case["grid"], dtype=float), case["mu"], None, eps=case["eps"],
              fixed_node_set=set(int(s) for s in ts.samples()))
    lls.precalculate_mutation_likelihoods(num_threads=case.get("num_threads"))
    return ts, discrete.BeliefPropagation(make_priors(case, ts), lls)


# ------------------------------------------------------------------ data for the model
def edge_mutation_counts(d):
    """mutations per edge, from positions (independent of tskit's mutation.edge)"""
    ts_sites = d["sites"]
    counts = [0] * len(d["edges"])
    for s, u in d["mutations"]:
        x = ts_sites[s]
        for k, (l, r, _p, c) in enumerate(d["edges"]):
            if c == u and l <= x < r:
                counts[k] += 1
                break
    return counts


def pmf_table(case, d=None):
    """tbl[e][i][j] (j <= i) = poisson pmf / logpmf of the mutation count of edge e at
    (timepoints[i] - timepoints[j] + eps) * mu * span_e, computed with the same floating-point
    expression as discrete.py (timediff_lower_tri rows; `dt * mutation_rate * span`)"""
    import scipy.stats
    d = d or case["ts"]
    tp = np.array(case["grid"], dtype=float)
    f = scipy.stats.poisson.pmf if case["space"] == LIN else scipy.stats.poisson.logpmf
    counts = edge_mutation_counts(d)
    tbl = []
    for (l, r, _p, _c), m in zip(d["edges"], counts):
        span = r - l
        rows = []
        for i in range(len(tp)):
            dt = tp[i] - tp[0:i + 1] + case["eps"]
            rows.append([float(x) for x in f(m, dt * case["mu"] * span)])
        tbl.append(rows)
    return tbl


def span_fractions(d):
    """edge.span / spans[child] and the (root, span_when_root / spans[root]) list, as
    BeliefPropagation.__init__ defines them, recomputed from the tables"""
    ts = ts_from_dict(d)
    n = ts.num_nodes
    spans = [0.0] * n
    for e in ts.edges():
        spans[e.child] += e.right - e.left
    root_spans = {}
    for tree in ts.trees(root_threshold=2):
        if tree.has_single_root:
            root_spans[tree.root] = root_spans.get(tree.root, 0.0) + tree.span
    for r, s in root_spans.items():
        spans[r] += s
    sfrac = [(e.right - e.left) / spans[e.child] for e in ts.edges()]
    roots = [(int(r), s / spans[r]) for r, s in root_spans.items()]
    return sfrac, roots


def cedge(e):
    return "(%d, %d, %d)%%nat" % (e[0], e[1], e[2])


def cvec(xs):
    return clist(xs, cfloat)


def ctab3(tbl):
    return clist(tbl, lambda rows: clist(rows, cvec))


def space_name(case):
    return "LinF" if case["space"] == LIN else "LogF"


def coq_common(case, name, tbl=None):
    """Definitions shared by every model call on this case (suffix `name`)"""
    d = case["ts"]
    n = len(d["nodes_time"])
    tbl = tbl if tbl is not None else pmf_table(case)
    fixed = [bool(f) for f in d["nodes_flags"]]
    nan = "nan"
    s = "Definition fixed_%s : nat -> bool := fun u => nth u %s true.\n" % (name, clist(fixed, cbool))
    s += "Definition lik_%s : nat -> nat -> nat -> float := tab3 %s %s.\n" % (name, nan, ctab3(tbl))
    return s


# ------------------------------------------------------------------ maximization
def max_edge_order(fit):
    return [(int(e.id), int(e.parent), int(e.child)) for e in fit.edges_by_child_then_parent_desc(grouped=False)]


def inside_rows(fit, n):
    """fit.inside as a list indexed by node: row (list of floats) or None for fixed nodes"""
    rows = []
    for u in range(n):
        v = fit.inside[u]
        rows.append([float(x) for x in v] if np.ndim(v) == 1 else None)
    return rows


def coq_max_term(case, name, order, ins_rows):
    n = len(case["ts"]["nodes_time"])
    P = space_name(case)
    ins = clist(ins_rows, lambda r: "None" if r is None else "(Some %s)" % cvec(r))
    es = clist(order, cedge)
    s = "Definition ins_%s : nat -> option (list float) := fun u => nth u %s None.\n" % (name, ins)
    s += "Definition es_%s : list edge := %s.\n" % (name, es)
    s += ("Definition r_%s := (match outside_maximization %s fixed_%s ins_%s lik_%s %d es_%s with "
          "Some mx => Some (map mx (seq 0 %d)) | None => None end, "
          "outside_orderb (map fst (groupby e_child es_%s)) [] (groupby e_child es_%s)).\n"
          % (name, P, name, name, name, n, name, n, name, name))
    return s


LOG_LO = math.log(1e-250)


def rule_check(case, ins_rows, idx, tbl=None, tol=1e-12, info=None, lo=None):
    """the documented maximisation rule, re-implemented from fit.inside and ALWAYS evaluated in log space
    (log inside + sum of scipy logpmf), so that nothing can underflow in the reference; returns a list of
    (node, message) for every node whose chosen index breaks it.  Ties within tol are accepted.
    lo (linear-space runs only): premise of the property -- a node is judged only if every edge's largest
    likelihood on its slice exceeds lo and so does the winning score AFTER dividing every edge vector by that
    maximum (which is what the unchanged algorithm does, so with these representable it cannot underflow at
    the winner); other nodes are counted in info["outside_premise"]."""
    d = case["ts"]
    lin = case["space"] == LIN
    if lin or tbl is None:
        tbl = pmf_table(dict(case, space=LOG))
    n = len(d["nodes_time"])
    fixed = [bool(f) for f in d["nodes_flags"]]
    par_edges = {}
    for k, (_l, _r, p, c) in enumerate(d["edges"]):
        par_edges.setdefault(c, []).append((k, p))
    bad = []
    G = len(case["grid"])

    def lg(x):
        if lin:
            return math.nan if math.isnan(x) else (math.log(x) if x > 0 else -math.inf)
        return x
    for u in range(n):
        if fixed[u]:
            continue
        if not (0 <= idx[u] < G):
            bad.append((u, "index %r off the grid" % (idx[u],)))
            continue
        iv = [lg(x) for x in ins_rows[u]]
        edge_max = []
        if u not in par_edges:
            sc = list(iv)
            m = G - 1
        else:
            m = min(idx[p] for _k, p in par_edges[u])
            if idx[u] > m:
                bad.append((u, "index %d later than youngest parent's %d" % (idx[u], m)))
                continue
            sc = []
            for t in range(m + 1):
                v = iv[t]
                for k, p in par_edges[u]:
                    v = v + tbl[k][idx[p]][t]
                sc.append(v)
            edge_max = [max(tbl[k][idx[p]][: idx[p] + 1]) for k, p in par_edges[u]]
        if any(math.isnan(x) for x in sc):
            continue
        best = max(sc)
        if best == -math.inf:
            continue
        # what the unchanged algorithm holds at the winner: every edge vector divided by its own maximum
        best_std = best - sum(edge_max)
        if lin and lo is not None and (best_std <= lo or any(x <= lo for x in edge_max)):
            if info is not None:
                info["outside_premise"] = info.get("outside_premise", 0) + 1
            continue
        got = sc[idx[u]]
        ok = got >= best - tol * (abs(best) + 1.0)
        if not ok:
            bad.append((u, "index %d has log-score %r but index %d has %r" % (idx[u], got, sc.index(best), best)))
    return bad


def multiparent_family(rng):
    """hand-built 2-4 tree family: node u = (0,1) (no mutations below it) has a DIFFERENT parent on each
    interval, each parent edge carrying many mutations; parents P_i = (u, a_i), root R = (P_i, b_i)"""
    k = rng.randint(2, 4)
    L = float(k)
    ns = 4
    u = ns
    P = [ns + 1 + i for i in range(k)]
    R = ns + 1 + k
    times = [0.0] * ns + [1.0] + [round(2.0 + 0.3 * i + 0.2 * rng.random(), 3) for i in range(k)] + [6.0]
    edges = [[0.0, L, u, 0], [0.0, L, u, 1]]
    for i in range(k):
        l, r = float(i), float(i + 1)
        a, b = (2, 3) if i % 2 == 0 else (3, 2)
        edges += [[l, r, P[i], u], [l, r, P[i], a], [l, r, R, P[i]], [l, r, R, b]]
    d = {"L": L, "nodes_time": times, "nodes_flags": [1] * ns + [0] * (k + 2), "edges": edges, "sites": [], "mutations": []}
    return canon(d)


def heavy_parent_counts(rng, d, lo=50, hi=300):
    """lo-hi mutations on every parent edge of the non-sample nodes that have >= 2 distinct parents, none elsewhere
    below them; a few mutations on other edges"""
    pars = {}
    for _l, _r, p, c in d["edges"]:
        pars.setdefault(c, set()).add(p)
    multi = {c for c, ps in pars.items() if len(ps) >= 2 and not d["nodes_flags"][c]}
    counts = []
    for _l, _r, p, c in d["edges"]:
        if c in multi:
            counts.append(rng.randint(lo, hi))
        elif p in multi:
            counts.append(0)
        else:
            counts.append(rng.choice([0, 0, 1, 2]))
    return counts, len(multi)


def grid_index(grid, times):
    """posterior_mean -> grid indices (None when a value is not a timepoint)"""
    out = []
    for x in times:
        try:
            out.append(grid.index(float(x)))
        except ValueError:
            out.append(None)
    return out


def summary(case):
    d = case["ts"]
    ts = ts_from_dict(d)
    return {"nodes": len(d["nodes_time"]), "edges": len(d["edges"]), "trees": int(ts.num_trees),
            "muts": len(d["mutations"]), "muts_on_no_edge": case.get("offedge_mutations", 0),
            "exotic": case.get("exotic", []), "samples_first": all(d["nodes_flags"][: sum(d["nodes_flags"])]),
            "grid": case["grid"], "space": case["space"],
            "eps": case["eps"], "mu": case["mu"]}


# ------------------------------------------------------------------ inside / outside
def run_io_impl(case, ts=None):
    """drive BeliefPropagation exactly as core.InsideOutsideMethod.run does (without the
    final normalisation); options: cache_inside, out_std (outside standardize), ignore_oldest_root"""
    ts, fit = make_fit(case, ts)
    n = ts.num_nodes
    forced_prior = {int(u): [float(x) for x in fit.priors[int(u)]] for u in case["nonfixed_order"]}
    marg = fit.inside_pass(cache_inside=bool(case.get("cache_inside")))
    fit.outside_pass(standardize=bool(case.get("out_std", True)),
                     ignore_oldest_root=bool(case.get("ignore_oldest_root")))

    def rows(x):
        out = []
        for u in range(n):
            v = x[u]
            out.append([float(a) for a in v] if np.ndim(v) == 1 else None)
        return out
    return {
        "fit": fit, "ts": ts,
        "prior": forced_prior,
        "inside": rows(fit.inside), "outside": rows(fit.outside), "marg": float(marg),
        "es_in": [(int(e.id), int(e.parent), int(e.child)) for e in fit.edges_by_parent_asc(grouped=False)],
        "es_out": [(int(e.id), int(e.parent), int(e.child)) for e in fit.edges_by_child_desc(grouped=False)],
    }


def coq_io_term(case, name, res):
    """model run of inside_pass + outside_pass on the same data; Definition r_<name> :
    option (inside dump * marginal * option outside dump) * (inside order ok) * (outside order ok)"""
    d = case["ts"]
    n = len(d["nodes_time"])
    G = len(case["grid"])
    P = space_name(case)
    sfrac, roots = span_fractions(d)
    prior = [res["prior"].get(u, []) for u in range(n)]
    s = "Definition prior_%s : nat -> list float := vec_of_list %s.\n" % (name, clist(prior, cvec))
    s += "Definition sf_%s : nat -> float := fun e => nth e %s nan.\n" % (name, cvec(sfrac))
    s += "Definition roots_%s : list (nat * float) := %s.\n" % (
        name, clist(roots, lambda rf: "(%d%%nat, %s)" % (rf[0], cfloat(rf[1]))))
    s += "Definition esin_%s : list edge := %s.\n" % (name, clist(res["es_in"], cedge))
    s += "Definition esout_%s : list edge := %s.\n" % (name, clist(res["es_out"], cedge))
    nonfixed = clist(sorted(case["nonfixed_order"]), cnat)
    s += ("Definition r_%s := (match inside_pass %s %d lik_%s sf_%s fixed_%s prior_%s true esin_%s roots_%s with\n"
          "  | None => None\n"
          "  | Some (st, m) => Some (dump %d (i_ins %s st), m,\n"
          "      match outside_pass %s %d lik_%s sf_%s fixed_%s st %s %s %s %d 0%%float esout_%s roots_%s %s with\n"
          "      | None => None | Some out => Some (dump %d out) end)\n"
          "  end,\n"
          "  inside_orderb fixed_%s [] (groupby e_parent esin_%s),\n"
          "  outside_orderb (map fst (groupby e_child esout_%s)) [] (groupby e_child esout_%s)).\n"
          % (name, P, G, name, name, name, name, name, name,
             n, P,
             P, G, name, name, name, cbool(bool(case.get("cache_inside"))),
             cbool(bool(case.get("out_std", True))), cbool(bool(case.get("ignore_oldest_root"))), n,
             name, name, nonfixed,
             n,
             name, name, name, name))
    return s


def close(a, b, rtol=1e-9, atol=0.0, log=False):
    """floats equal up to rtol; NaN/inf patterns must match exactly; in log space the
    comparison is absolute on the logarithm (= relative on the probability)"""
    if a is None or b is None:
        return a is b
    if math.isnan(a) or math.isnan(b):
        return math.isnan(a) and math.isnan(b)
    if math.isinf(a) or math.isinf(b):
        return a == b
    if log:
        return abs(a - b) <= rtol * (1.0 + abs(a)) + atol
    return abs(a - b) <= rtol * max(abs(a), abs(b)) + atol


def vec_close(a, b, **kw):
    if a is None or b is None:
        return a is None and b is None
    return len(a) == len(b) and all(close(x, y, **kw) for x, y in zip(a, b))


def unopt(x):
    """parsed Coq option -> python (None or payload)"""
    if x is None:
        return None
    assert isinstance(x, tuple) and x[0] == "Some", x
    return x[1]


def compare_io(ctx, case, res, parsed, rtol=1e-9, label="inside_outside"):
    """compare one parsed model result with the implementation's; returns max relative difference seen"""
    (run, in_ok, out_ok) = parsed
    log = case["space"] == LOG
    rp = {"case": case}
    if not in_ok:
        ctx.tie_fail("correspondence", "inside_order", "ts.edges() is not grouped by parent with children first", rp)
    if not out_ok:
        ctx.tie_fail("correspondence", "outside_order", "edges_by_child_desc does not give parents before children", rp)
    run = unopt(run)
    if run is None:
        ctx.corr(label + "/inside", False, "model: error (None), implementation returned values", rp)
        return
    ins, marg, out = run
    ins = [unopt(x) for x in ins]
    n = len(res["inside"])
    ok_in = all(vec_close(ins[u], res["inside"][u], rtol=rtol, log=log) for u in range(n))
    ctx.corr(label + "/inside", ok_in, "impl=%r model=%r" % (res["inside"], ins),
             dict(rp, impl=res["inside"], model=ins))
    ctx.corr(label + "/marginal", close(float(marg), res["marg"], rtol=rtol, log=log),
             "impl=%r model=%r" % (res["marg"], marg), dict(rp, impl=res["marg"], model=marg))
    out = unopt(out)
    if out is None:
        ctx.corr(label + "/outside", False, "model: error (None), implementation returned values", rp)
        return
    out = [unopt(x) for x in out]
    ok_out = all(vec_close(out[u], res["outside"][u], rtol=rtol, log=log) for u in range(n))
    ctx.corr(label + "/outside", ok_out, "impl=%r model=%r" % (res["outside"], out),
             dict(rp, impl=res["outside"], model=out))


def io_correspondence(ctx, cases, results, requires, chunk=60, rtol=1e-9, label="inside_outside"):
    """evaluate the model on every (case, implementation result) pair and compare"""
    items = [(k, c, r) for k, (c, r) in enumerate(zip(cases, results)) if r is not None]
    for lo in range(0, len(items), chunk):
        part = items[lo:lo + chunk]
        text = ""
        for k, c, r in part:
            name = "c%d" % k
            text += coq_common(c, name) + coq_io_term(c, name, r)
        # one Eval per case: the result types differ in nothing, but separate Evals keep terms small
        text += "Eval vm_compute in [%s].\n" % "; ".join("r_c%d" % k for k, _c, _r in part)
        parsed = ctx.coq_eval(PRELUDE + text, requires=requires, tag="io")[0]
        for (k, c, r), pr in zip(part, parsed):
            compare_io(ctx, c, r, pr, rtol=rtol, label=label)


# ------------------------------------------------------------------ brute force (C10)
def brute_force(case):
    """exact marginal posteriors and normalising constant of the discretised model on a
    single tree, by enumeration of every assignment of grid indices to the non-sample nodes:
    weight = prod prior[u][a_u] * prod_edges Poisson(mutations; (t[a_parent] - t[a_child] + eps) mu span),
    parents no younger than children, samples at timepoint index 0 (time 0).
    Independent of tsdate: uses only scipy's pmf, in linear space, with exact (fsum) sums."""
    import scipy.stats
    d = case["ts"]
    tp = case["grid"]
    G = len(tp)
    fixed = [bool(f) for f in d["nodes_flags"]]
    ns = [u for u in range(len(fixed)) if not fixed[u]]
    counts = edge_mutation_counts(d)
    edges = [(p, c, m, r - l) for (l, r, p, c), m in zip(d["edges"], counts)]
    # pmf lookup per edge: pm[k][i][j]
    pm = []
    for p, c, m, span in edges:
        tab = [[float(scipy.stats.poisson.pmf(m, (tp[i] - tp[j] + case["eps"]) * case["mu"] * span))
                if j <= i else 0.0 for j in range(G)] for i in range(G)]
        pm.append(tab)
    prior = {u: case["prior"][str(u)] for u in ns}
    pos = {u: k for k, u in enumerate(ns)}
    terms = {u: [[] for _ in range(G)] for u in ns}
    allw = []
    for a in itertools.product(range(G), repeat=len(ns)):
        w = 1.0
        for u in ns:
            w *= prior[u][a[pos[u]]]
            if w == 0.0:
                break
        if w == 0.0:
            continue
        for k, (p, c, m, span) in enumerate(edges):
            ip = a[pos[p]]
            ic = 0 if fixed[c] else a[pos[c]]
            if ic > ip:
                w = 0.0
                break
            w *= pm[k][ip][ic]
        if w == 0.0:
            continue
        allw.append(w)
        for u in ns:
            terms[u][a[pos[u]]].append(w)
    Z = math.fsum(allw)
    post = {u: [math.fsum(terms[u][i]) / Z for i in range(G)] for u in ns}
    return post, Z


def is_single_tree(d):
    return all(l == 0.0 and r == d["L"] for l, r, _p, _c in d["edges"])


# ------------------------------------------------------------------ dense reference (C38)
def reference_inside_outside(case, ignored=None, out_std=False):
    """inside and outside passes re-implemented with dense G x G likelihood matrices, in
    linear space, visiting nodes by time (no triangular packing, no edge-order tricks);
    `ignored`: the node whose messages to its children are left out of the outside pass.
    Returns (inside rows, outside rows) indexed by node (None for samples)."""
    d = case["ts"]
    tp = case["grid"]
    G = len(tp)
    n = len(d["nodes_time"])
    fixed = [bool(f) for f in d["nodes_flags"]]
    lin_case = dict(case, space=LIN)
    tbl = pmf_table(lin_case)
    L = []
    for rows in tbl:
        m = np.zeros((G, G))
        for i in range(G):
            m[i, : i + 1] = rows[i]
        L.append(m)
    sfrac, roots = span_fractions(d)
    times = d["nodes_time"]
    by_parent, by_child = {}, {}
    for k, (_l, _r, p, c) in enumerate(d["edges"]):
        by_parent.setdefault(p, []).append((k, c))
        by_child.setdefault(c, []).append((k, p))
    ins = [None] * n
    den = [None] * n
    msg = {}
    for p in sorted(by_parent, key=lambda u: (times[u], u)):
        if fixed[p]:
            continue
        val = np.array(case["prior"][str(p)], dtype=float)
        for k, c in by_parent[p]:
            if fixed[c]:
                m = L[k][:, 0].copy()
            else:
                m = L[k] @ (ins[c] ** sfrac[k])
            msg[k] = m
            val = val * m
        den[p] = val.max()
        ins[p] = val / den[p]
    out = [None] * n
    rootfrac = dict(roots)
    for u in range(n):
        if not fixed[u]:
            out[u] = np.full(G, rootfrac.get(u, 0.0))
    for c in sorted(by_child, key=lambda u: (-times[u], u)):
        if fixed[c]:
            continue
        val = np.ones(G)
        for k, p in by_child[c]:
            if ignored is not None and p == ignored:
                continue
            g = msg[k] / den[c]
            with np.errstate(divide="ignore", invalid="ignore"):
                idg = ins[p] / g
            idg[np.isnan(idg)] = 0.0
            pv = (out[p] * idg) ** sfrac[k]
            if out_std:
                pv = pv / pv.max()
            val = val * (L[k].T @ pv)
        out[c] = val / val.max() if out_std else val / den[c]
    return ([None if v is None else [float(x) for x in v] for v in ins],
            [None if v is None else [float(x) for x in v] for v in out])


def oldest_node(d):
    """the oldest root = the node with the greatest time among the nodes of the edge table"""
    used = set()
    for _l, _r, p, c in d["edges"]:
        used.add(p)
        used.add(c)
    t = d["nodes_time"]
    top = max(t[u] for u in used)
    cands = [u for u in used if t[u] == top]
    return cands[0] if len(cands) == 1 else None


# ------------------------------------------------------------------ the float exp/log/pow of the model
def check_float_funs(ctx, n=60):
    """coq/model/DiscreteFloat.v implements exp / log / pow on binary64 with float arithmetic;
    compare them with libm on random arguments (relative 1e-13)"""
    rng = ctx.rng
    xs = [rng.uniform(-740, 700) for _ in range(n // 3)] + [rng.uniform(-2, 2) for _ in range(n // 3)] + \
         [0.0, 1.0, -1.0, 1e-300, -1e-300, 709.0, -745.0]
    ys = [10 ** rng.uniform(-300, 300) for _ in range(n // 3)] + [rng.uniform(0.5, 2.0) for _ in range(n // 3)] + \
         [1.0, 5e-324, 1e308, 0.5, 2.0]
    pw = [(rng.random() * 10 ** rng.randint(-30, 2), rng.random()) for _ in range(n // 3)] + [(0.0, 0.3), (1.0, 0.7), (0.37, 1.0)]
    body = PRELUDE + "Eval vm_compute in (map fexp %s, map flog %s, map (fun vf => fpow (fst vf) (snd vf)) %s).\n" % (
        cvec(xs), cvec(ys), clist(pw, lambda vf: "(%s, %s)" % (cfloat(vf[0]), cfloat(vf[1]))))
    got = ctx.coq_eval(body, requires=("lib.Num", "model.Discrete", "model.DiscreteFloat"), tag="flt")[0]
    worst = 0.0
    for name, args, vals, f in (("fexp", xs, got[0], math.exp), ("flog", ys, got[1], math.log),
                                ("fpow", pw, got[2], lambda vf: vf[0] ** vf[1])):
        for a, b in zip(args, vals):
            want = f(a)
            b = float(b)
            if want == b:
                continue
            err = abs(want - b) / max(abs(want), 5e-324)
            if want != 0.0 and abs(want) < 1e-300:      # subnormal results: absolute comparison
                err = abs(want - b) / 1e-300
            worst = max(worst, err)
            ctx.corr("model-float-" + name, err <= 1e-13, "%s(%r): libm %r, model %r" % (name, a, want, b),
                     {"unit": name, "arg": a, "libm": want, "model": b})
    ctx.notes["model_float_functions_max_rel_error_vs_libm"] = worst


# ------------------------------------------------------------------ option combinations (robustness round)
def random_options(rng, thorough=False):
    """options off the default path, identical for every call made on one case"""
    return {
        "num_threads": rng.choice([None, None, None, 1, 1] + ([2] if thorough else [])),
        "np_scalars": rng.random() < 0.3,      # numpy-typed scalars (np.float64, np.bool_) as option values
        "cache_inside": rng.random() < 0.5,
        "out_std": rng.random() < 0.5,
    }


def opt(case, key, value):
    """the option value as the caller would pass it: plain python, or numpy-typed when the case says so"""
    if not case.get("np_scalars") or value is None:
        return value
    if isinstance(value, bool):
        return np.bool_(value)
    if isinstance(value, float):
        return np.float64(value)
    return value


def add_unary_chain(d, rng):
    """multi-tree inputs: a chain of unary nodes above a local root (vlib.gen.unary_chain_ts); None if impossible"""
    from vlib import gen
    ts = gen.unary_chain_ts(rng, ts_from_dict(d))
    return None if ts is None else ts_to_dict(ts)


def has_unary(d):
    ts = ts_from_dict(d)
    for tree in ts.trees():
        for u in tree.nodes():
            if tree.num_children(u) == 1:
                return True
    return False


PRIOR_KINDS = ["explicit", "explicit", "built", "built-approx", "built-gamma"]


def built_priors(case, ts):
    """a prior grid built by tsdate itself (conditional coalescent), exact or approximate, with
    allow_unary when the input has unary nodes; a fresh object on every call"""
    import tsdate
    kind = case.get("prior_kind", "built")
    tp = case.get("prior_timepoints", 8)
    if isinstance(tp, (list, tuple)):
        tp = np.array(tp, dtype=float)       # explicit time slices
    kw = dict(timepoints=tp, allow_unary=bool(case.get("allow_unary")))
    if kind == "built-approx":
        kw.update(approximate_priors=True, approx_prior_size=case.get("approx_prior_size", 12))
    if kind == "built-gamma":
        kw.update(prior_distribution="gamma")
    return tsdate.build_prior_grid(ts, case.get("population_size", 1.0), **kw)


def priors_for(case, ts):
    return make_priors(case, ts) if case.get("prior_kind", "explicit") == "explicit" else built_priors(case, ts)


def brute_force_log(case):
    """the same enumeration as brute_force, carried out in log space (scipy logpmf, logaddexp), for inputs
    with extreme evidence whose weights are far below the double range; returns (posterior rows, log Z)"""
    import scipy.stats
    d = case["ts"]
    tp = case["grid"]
    G = len(tp)
    fixed = [bool(f) for f in d["nodes_flags"]]
    ns = [u for u in range(len(fixed)) if not fixed[u]]
    counts = edge_mutation_counts(d)
    edges = [(p, c, m, r - l) for (l, r, p, c), m in zip(d["edges"], counts)]
    NEG = -math.inf
    pm = []
    for p, c, m, span in edges:
        pm.append([[float(scipy.stats.poisson.logpmf(m, (tp[i] - tp[j] + case["eps"]) * case["mu"] * span))
                    if j <= i else NEG for j in range(G)] for i in range(G)])
    with np.errstate(divide="ignore"):
        prior = {u: [float(x) for x in np.log(np.array(case["prior"][str(u)], dtype=float))] for u in ns}
    pos = {u: k for k, u in enumerate(ns)}
    terms = {u: [[] for _ in range(G)] for u in ns}
    allw = []
    for a in itertools.product(range(G), repeat=len(ns)):
        w = 0.0
        for u in ns:
            w += prior[u][a[pos[u]]]
        if w == NEG:
            continue
        for k, (p, c, m, span) in enumerate(edges):
            ip = a[pos[p]]
            ic = 0 if fixed[c] else a[pos[c]]
            if ic > ip:
                w = NEG
                break
            w += pm[k][ip][ic]
        if w == NEG or math.isnan(w):
            continue
        allw.append(w)
        for u in ns:
            terms[u][a[pos[u]]].append(w)
    lse = lambda xs: float(np.logaddexp.reduce(np.array(xs))) if xs else NEG
    logZ = lse(allw)
    post = {u: [math.exp(lse(terms[u][i]) - logZ) if terms[u][i] else 0.0 for i in range(G)] for u in ns}
    return post, logZ
