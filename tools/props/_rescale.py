"""Shared by C25 / C37: cases for the time-rescaling kernels of tsdate/rescaling.py and
ExpectationPropagation.rescale, implementation runners, the evaluation of
coq/model/Rescale.v on binary64 PrimFloat inside Coq, and double-precision references
written from the property text (direct interval-overlap sums, the piecewise map)."""
import math
import struct
import warnings

import numpy as np

from vlib import gen
from vlib.coqfmt import cbool, cfloat, clist, cnat, copt, cpair

REQ = ("lib.Num", "model.Rescale")
K2_MSG = "Use fewer rescaling intervals"


# ------------------------------------------------------------------ float comparison
def _ord(x):
    i = struct.unpack("<q", struct.pack("<d", x))[0]
    return i if i >= 0 else -(i & 0x7FFFFFFFFFFFFFFF)


def ulps(a, b):
    if math.isnan(a) or math.isnan(b):
        return 0 if (math.isnan(a) and math.isnan(b)) else 1 << 62
    if a == b:
        return 0
    if math.isinf(a) or math.isinf(b):
        return 1 << 62
    return abs(_ord(a) - _ord(b))


def close(a, b, max_ulps=0, rel=0.0, abs_=0.0):
    """floats equal up to max_ulps, or relative rel, or absolute abs_ (0 = exact, +0 == -0)"""
    u = ulps(a, b)
    if u <= max_ulps:
        return True
    if math.isnan(a) or math.isnan(b) or math.isinf(a) or math.isinf(b):
        return False
    d = abs(a - b)
    return d <= rel * max(abs(a), abs(b)) or d <= abs_


def close_list(a, b, **kw):
    if isinstance(a, str) or isinstance(b, str) or a is None or b is None:
        return a == b
    if len(a) != len(b):
        return False
    return all(close(float(x), float(y), **kw) for x, y in zip(a, b))


def max_ulps_list(a, b):
    return max([ulps(float(x), float(y)) for x, y in zip(a, b)] + [0])


# ------------------------------------------------------------------ generators
def _dy(rng, lo=-6, hi=6):
    """a positive dyadic number with a short mantissa"""
    return rng.randint(1, 31) * 2.0 ** rng.randint(lo, hi)


def synth_times(rng, n, nfixed):
    style = rng.choice(["ints", "ints", "dyadic", "float", "float", "clustered"])
    if style == "ints":
        t = [float(rng.randint(0, max(2, n // 2 + 1))) for _ in range(n)]
    elif style == "dyadic":
        t = [rng.randint(0, 12) * 0.25 for _ in range(n)]
    elif style == "clustered":
        base = [rng.random() * 10 for _ in range(3)]
        t = [rng.choice(base) + rng.choice([0.0, 0.0, 1e-9, 1e-15 * rng.random()]) for _ in range(n)]
    else:
        scale = 10.0 ** rng.randint(-3, 4)
        t = [rng.random() * scale for _ in range(n)]
    floor = 0.0 if rng.random() < 0.8 else rng.choice([0.5, 1.0, 3.25])   # min time may be > 0
    for i in range(nfixed):
        t[i] = floor if rng.random() < 0.85 else rng.choice([0.5, 1.0, 2.0])
    return t, style


def synth_case(rng):
    """random node times (with ties), random edges (mostly parent above child, some inverted or of
    zero length), random (count, span) rows"""
    n = rng.randint(2, 11)
    nfixed = rng.randint(1, max(1, n // 2))
    t, style = synth_times(rng, n, nfixed)
    if len(set(t)) < 2:
        t[-1] = max(t) + 1.0
    m = rng.randint(1, 2 * n)
    parent, child, liks = [], [], []
    for _ in range(m):
        c, p = rng.sample(range(n), 2)
        if t[p] < t[c] and rng.random() < 0.85:
            c, p = p, c
        parent.append(p)
        child.append(c)
        y = rng.choice([0.0, 0.0, 1.0, 2.0, 5.0, round(rng.random() * 10, 3), rng.random() * 3])
        sp = rng.choice([1.0, 10.0, 0.5, rng.random() * 100, float(rng.randint(1, 1000))])
        liks.append([y, sp])
    return {"kind": "synth/" + style, "t": t, "fixed": [i < nfixed for i in range(n)],
            "parent": parent, "child": child, "liks": liks}


def maybe_exotic(rng, ts, frac=0.45, p=0.35, kinds=None):
    """valid-but-unusual decorations (vlib.gen.exotic) on a fraction of the tree sequences"""
    if rng.random() >= frac:
        return ts, []
    return gen.exotic(rng, ts, kinds=kinds, p=p)


def tie_times(rng, ts):
    """same tree sequence with non-sample node times moved up to a coarse DYADIC grid (many unrelated
    nodes share a non-zero age; level * step is exact, so ties are exact and no branch is shorter than
    one grid step) while every parent stays strictly above its children"""
    import tskit
    top = max(float(ts.max_root_time), 1e-3)
    step = 2.0 ** math.floor(math.log2(top / rng.choice([2, 4, 8, 16])))
    t = np.array(ts.nodes_time, dtype=float)
    level = {}
    new = t.copy()
    is_sample = (ts.nodes_flags & tskit.NODE_IS_SAMPLE) != 0
    kids = {}
    for e in ts.edges():
        kids.setdefault(e.parent, set()).add(e.child)
    for u in sorted(range(ts.num_nodes), key=lambda v: t[v]):
        if is_sample[u]:
            continue
        k = max(1, math.ceil(t[u] / step))
        for c in kids.get(u, []):
            k = max(k, (level[c] + 1) if c in level else math.floor(new[c] / step) + 1)
        level[u] = k
        new[u] = k * step
    tables = ts.dump_tables()
    tables.nodes.time = new
    tables.mutations.time = np.full(tables.mutations.num_rows, tskit.UNKNOWN_TIME)
    tables.sort()
    tables.build_index()
    tables.compute_mutation_parents()
    return tables.tree_sequence()


def ts_case(rng, ts=None):
    """a simulated topology with count_mutations rows and perturbed node times"""
    import tskit
    import tsdate.rescaling as R
    if ts is None:
        ts = gen.sim_ts(rng, historical=rng.random() < 0.2)
    ts, kinds = maybe_exotic(rng, ts)
    style = rng.choice(["noise", "ties", "valid", "valid", "tiny", "big", "grid"])
    if style == "grid":                                   # valid times with ties at non-zero ages
        ts = tie_times(rng, ts)
        style = "valid"
        kinds = kinds + ["tied_times"]
    t, style = gen.random_times(rng, ts, style)
    t = [abs(float(x)) for x in t]
    fixed = [bool(f & tskit.NODE_IS_SAMPLE) for f in ts.nodes_flags]
    liks, _ = R.count_mutations(ts, size_biased=rng.random() < 0.5)
    mu = rng.choice([1.0, 0.1, 1e-3, 2.5])
    liks = [[float(a), float(b) * mu] for a, b in liks]
    if len(set(t)) < 2:
        t[-1] = max(t) + 1.0
    return {"kind": "ts/" + style + ("+exotic" if kinds else ""), "exotic": kinds, "t": t, "fixed": fixed,
            "parent": [int(x) for x in ts.edges_parent], "child": [int(x) for x in ts.edges_child],
            "liks": liks}


def kernel_case(rng):
    c = synth_case(rng) if rng.random() < 0.55 else ts_case(rng)
    c["max_intervals"] = rng.choice([1, 2, 3, 5, 10, 1000])
    return c


def breaks_case(rng, base=None):
    """breaks (strictly increasing from 0, or deliberately not) and points to map"""
    k = rng.randint(1, 7)
    style = rng.choice(["float", "dyadic", "ints"])

    def incs():
        if style == "ints":
            return [float(rng.randint(1, 4)) for _ in range(k)]
        if style == "dyadic":
            return [_dy(rng, -3, 3) for _ in range(k)]
        return [rng.random() * 10.0 ** rng.randint(-2, 2) + 1e-6 for _ in range(k)]
    ob = [0.0] + list(np.cumsum(incs()))
    rb = [0.0] + list(np.cumsum(incs()))
    bad = rng.random()
    if bad < 0.08 and k >= 2:                 # a repeated rescaled break (K2's trigger)
        j = rng.randint(1, k)
        rb[j] = rb[j - 1]
    elif bad < 0.12 and k >= 2:
        j = rng.randint(1, k)
        ob[j] = ob[j - 1]
    elif bad < 0.16:
        ob[0] = rng.choice([0.5, 1e-3])       # first break above 0: points below it wrap around
        ob = sorted(ob)
    ob = [float(x) for x in ob]
    rb = [float(x) for x in rb]
    xs = []
    npts = rng.randint(1, 12)
    for _ in range(npts):
        r = rng.random()
        if r < 0.3:
            xs.append(rng.choice(ob))                            # exactly on a break
        elif r < 0.4:
            xs.append(float(np.nextafter(rng.choice(ob), rng.choice([-1.0, 1e300]))))
        elif r < 0.5:
            xs.append(ob[-1] * (1 + rng.random()))               # beyond the last break
        elif r < 0.55:
            xs.append(0.0)
        else:
            xs.append(rng.random() * ob[-1] * 1.1)
    xs = [abs(float(x)) for x in xs]
    fixed = [rng.random() < 0.25 for _ in xs]
    return {"kind": "breaks/" + style, "x": xs, "fixed": fixed, "ob": ob, "rb": rb}


# ------------------------------------------------------------------ implementation runners
def _np_case(case):
    return (np.array(case["t"], dtype=np.float64), np.array(case["liks"], dtype=np.float64).reshape(-1, 2),
            np.array(case["parent"], dtype=np.int32), np.array(case["child"], dtype=np.int32))


def _exc(e):
    return "raise:%s:%s" % (type(e).__name__, str(e)[:80])


def impl_area(case):
    import tsdate.rescaling as R
    t, lk, p, c = _np_case(case)
    try:
        co, of, du, ix = R.mutational_area(t, lk, p, c)
    except Exception as e:  # noqa
        return _exc(e)
    return ([float(x) for x in co], [float(x) for x in of], [float(x) for x in du], [int(x) for x in ix])


def impl_changepoints(area, max_intervals):
    """_fixed_changepoints is NOT part of these models (C26): its result is an input"""
    import tsdate.rescaling as R
    co, of, du, _ = area
    w = np.array(of) * np.array(du)
    if not (len(w) > 0 and np.all(np.isfinite(w)) and float(np.sum(w)) > 0):
        return None
    with warnings.catch_warnings():
        warnings.simplefilter("ignore")
        cps = R._fixed_changepoints(w, int(max_intervals))
    cps = [int(x) for x in cps]
    if min(cps) < 0 or max(cps) > len(w):
        return None
    return cps


def impl_timescale(case):
    import tsdate.rescaling as R
    t, lk, p, c = _np_case(case)
    try:
        with warnings.catch_warnings():
            warnings.simplefilter("ignore")
            o, a = R.mutational_timescale(t, lk, np.array(case["fixed"], dtype=bool), p, c, int(case["max_intervals"]))
    except AssertionError as e:
        return "assert:" + str(e)[:60]
    except Exception as e:  # noqa
        return _exc(e)
    return ([float(x) for x in o], [float(x) for x in a])


def impl_point(case):
    import tsdate.rescaling as R
    try:
        out = R.piecewise_scale_point_estimate(
            np.array(case["x"], dtype=np.float64), np.array(case["fixed"], dtype=bool),
            np.array(case["ob"], dtype=np.float64), np.array(case["rb"], dtype=np.float64))
    except AssertionError as e:
        return "assert:" + str(e)[:60]
    except Exception as e:  # noqa
        return _exc(e)
    return [float(x) for x in out]


# ------------------------------------------------------------------ Coq terms
def chunks(terms, max_chars=250000, max_n=150):
    """split a list of Coq terms so that no generated file gets too large for coqc's parser"""
    out, cur, size = [], [], 0
    for t in terms:
        if cur and (size + len(t) > max_chars or len(cur) >= max_n):
            out.append(cur)
            cur, size = [], 0
        cur.append(t)
        size += len(t)
    if cur:
        out.append(cur)
    return out


def c_liks(liks):
    return clist(liks, lambda r: cpair(cfloat(r[0]), cfloat(r[1])))


def c_edges(case):
    return clist(zip(case["parent"], case["child"]), lambda pc: cpair(cnat(pc[0]), cnat(pc[1])))


def c_floats(xs):
    return clist(xs, cfloat)


def model_area_timescale(ctx, cases, cpss):
    """one Coq run: mutational_area and (when changepoints are given) mutational_timescale"""
    terms = []
    for c, cps in zip(cases, cpss):
        terms.append("run %s %s %s %s" % (c_floats(c["t"]), c_liks(c["liks"]), c_edges(c),
                                          copt(cps, lambda x: clist(x, cnat))))
    hdr = ("Definition run (t : list float) l e (cps : option (list nat)) :=\n"
           "  (mutational_area FNum t l e,\n"
           "   match cps with Some c => mutational_timescale FNum t l e c | None => None end).\n")
    out = []
    for ch in chunks(terms):
        body = hdr + "Definition cases := %s.\nEval vm_compute in cases.\n" % clist(ch)
        res = ctx.coq_eval(body, requires=REQ, tag="area")
        out += res[0]
    conv = []
    for row in out:
        # Coq prints the left-nested tuple ((((counts, offset), duration), index), timescale) flat
        a, b = row[:4], row[4]
        area = ([float(x) for x in a[0]], [float(x) for x in a[1]], [float(x) for x in a[2]],
                [int(x) for x in a[3]])
        if b is None:
            ts = None
        else:
            ts = ([float(x) for x in b[1][0]], [float(x) for x in b[1][1]])
        conv.append((area, ts))
    return conv


def model_point(ctx, cases):
    terms = ["piecewise_scale_point_estimate FNum %s %s %s %s" % (
        c_floats(c["x"]), clist(c["fixed"], cbool), c_floats(c["ob"]), c_floats(c["rb"])) for c in cases]
    out = []
    for ch in chunks(terms):
        body = "Definition cases := %s.\nEval vm_compute in cases.\n" % clist(ch)
        out += ctx.coq_eval(body, requires=REQ, tag="point")[0]
    return [None if r is None else [float(x) for x in r[1]] for r in out]


# ------------------------------------------------------------------ references (property text, doubles)
def ref_area(case):
    """direct computation: for each interval between consecutive distinct node times, add up
    y_e/len_e and span_e over the edges of positive length that cover the interval"""
    t = case["t"]
    s = sorted(set(t))
    counts, offset = [], []
    for k in range(len(s) - 1):
        lo, hi = s[k], s[k + 1]
        cy, co = 0.0, 0.0
        for p, c, (y, sp) in zip(case["parent"], case["child"], case["liks"]):
            ln = t[p] - t[c]
            if ln > 0 and t[c] <= lo and hi <= t[p]:
                cy += y / ln
                co += sp
        counts.append(cy)
        offset.append(co)
    brk = [0.0] + s[1:]
    duration = [brk[k + 1] - brk[k] for k in range(len(brk) - 1)]
    index = [s.index(x) for x in t]
    return counts, offset, duration, index


def ref_pw(ob, rb, x):
    """the piecewise-linear map through (ob[i], rb[i]), constant after the last break"""
    if x >= ob[-1]:
        return rb[-1]
    i = max(j for j in range(len(ob)) if ob[j] <= x)
    return rb[i] + (rb[i + 1] - rb[i]) / (ob[i + 1] - ob[i]) * (x - ob[i])


def strictly_increasing(v):
    return all(b > a for a, b in zip(v[:-1], v[1:]))


# ------------------------------------------------------------------ recording ExpectationPropagation.rescale
class Recorder:
    """wraps the kernels that ExpectationPropagation.rescale looks up in tsdate.variational"""
    NAMES = ["mutational_timescale", "piecewise_scale_point_estimate", "piecewise_scale_posterior"]

    def __init__(self):
        import tsdate.variational as V
        self.V = V
        self.calls = []
        self.orig = {}

    def __enter__(self):
        for nm in self.NAMES:
            f = getattr(self.V, nm)
            self.orig[nm] = f

            def g(*a, _f=f, _nm=nm):
                args = [np.array(x).copy() if isinstance(x, np.ndarray) else x for x in a]
                try:
                    r = _f(*a)
                except Exception as e:  # noqa
                    self.calls.append((_nm, args, e))
                    raise
                self.calls.append((_nm, args, r))
                return r
            setattr(self.V, nm, g)
        return self

    def __exit__(self, *exc):
        for nm, f in self.orig.items():
            setattr(self.V, nm, f)
        return False


def ep_fit(rng, ts, mu, ep_iterations, max_shape, singletons_phased=True):
    """EP state just before rescale()"""
    import tsdate.variational as V
    with warnings.catch_warnings():
        warnings.simplefilter("ignore")
        ep = V.ExpectationPropagation(ts, mutation_rate=mu, singletons_phased=singletons_phased)
        ep.infer(ep_iterations=ep_iterations, max_shape=max_shape, rescale_intervals=0,
                 rescale_iterations=0, regularise=True, rescale_segsites=False)
    return ep


def ep_rescale_record(ep, **kw):
    """run ep.rescale(**kw) with recording -> (status, calls)"""
    with Recorder() as rec:
        try:
            with warnings.catch_warnings():
                warnings.simplefilter("ignore")
                ep.rescale(**kw)
            st = "ok"
        except AssertionError as e:
            st = "assert:" + str(e)[:60]
        except Exception as e:  # noqa
            st = _exc(e)
    return st, rec.calls


# ------------------------------------------------------------------ piecewise_scale_posterior
def posterior_case(rng):
    """synthetic gamma posteriors (natural parameters alpha = shape - 1, beta = rate) and breaks"""
    b = breaks_case(rng)
    n = rng.randint(1, 8)
    posts, fixed = [], []
    top = b["ob"][-1] if b["ob"][-1] > 0 else 1.0
    for _ in range(n):
        shape = rng.choice([0.5, 1.0, 2.0, 7.5, 40.0, 300.0, 1000.0, 10.0 ** rng.uniform(-0.3, 3)])
        mean = rng.choice([rng.random() * top * 1.2, rng.choice(b["ob"]) or top * 0.5, top * rng.random() ** 3])
        mean = max(mean, 1e-9 * top)
        posts.append([shape - 1.0, shape / mean])
        fixed.append(rng.random() < 0.25)
    if rng.random() < 0.03:
        posts[0][1] = -posts[0][1]                     # the code's own positivity assertion
        fixed[0] = False
    return {"kind": "post/" + b["kind"], "posts": posts, "fixed": fixed, "ob": b["ob"], "rb": b["rb"],
            "qw": rng.choice([0.5, 0.5, 0.1, 0.9, 0.25]), "ms": rng.choice([1000.0, 1000.0, 20.0, 5.0, 2.0])}


def run_posterior(case, compiled=False):
    """run the Python body of piecewise_scale_posterior with the two external functions wrapped
    -> (result | 'assert:..' | 'raise:..', gtab, ftab); with compiled=True the jitted function
    (no tables)"""
    import tsdate.rescaling as R
    f = R.piecewise_scale_posterior
    args = (np.array(case["posts"], dtype=np.float64).reshape(-1, 2), np.array(case["fixed"], dtype=bool),
            np.array(case["ob"], dtype=np.float64), np.array(case["rb"], dtype=np.float64),
            float(case["qw"]), float(case["ms"]))
    gtab, ftab = [], []
    if compiled:
        fn = f
    else:
        fn = getattr(f, "py_func", f)
    og, of = R.gammainc_inv, R.approximate_gamma_iqr

    def g(a, q):
        v = og(a, q)
        gtab.append((float(a), float(q), float(v)))
        return v

    def h(q1, q2, x1, x2, ms):
        try:
            r = of(q1, q2, x1, x2, ms)
        except Exception:  # noqa
            ftab.append((float(q1), float(q2), float(x1), float(x2), float(ms), None))
            raise
        ftab.append((float(q1), float(q2), float(x1), float(x2), float(ms), (float(r[0]), float(r[1]))))
        return r
    if not compiled:
        R.gammainc_inv, R.approximate_gamma_iqr = g, h
    try:
        with warnings.catch_warnings():
            warnings.simplefilter("ignore")
            out = fn(*args)
        res = [None if (math.isnan(a) and math.isnan(b)) else (float(a), float(b)) for a, b in out]
    except AssertionError as e:
        res = "assert:" + str(e)[:60]
    except Exception as e:  # noqa
        res = _exc(e)
    finally:
        R.gammainc_inv, R.approximate_gamma_iqr = og, of
    return res, gtab, ftab


POST_HDR = """
Fixpoint look2 (tb : list (float * float * float)) (a q : float) : float :=
  match tb with
  | [] => nan
  | (x, y, v) :: r => if PrimFloat.eqb x a && PrimFloat.eqb y q then v else look2 r a q
  end.
Fixpoint look5 (tb : list (float * float * float * float * float * option (float * float)))
    (q1 q2 x1 x2 ms : float) : option (float * float) :=
  match tb with
  | [] => None
  | (a, b, c, d, e, v) :: r =>
      if PrimFloat.eqb a q1 && PrimFloat.eqb b q2 && PrimFloat.eqb c x1 && PrimFloat.eqb d x2
         && PrimFloat.eqb e ms then v else look5 r q1 q2 x1 x2 ms
  end.
Definition runp gt ft posts fixed ob rb qw ms :=
  piecewise_scale_posterior FNum (look2 gt) (look5 ft) posts fixed ob rb qw ms.
"""


def model_posterior(ctx, cases, tabs):
    """Rescale.piecewise_scale_posterior on PrimFloat with the recorded external calls as tables"""
    terms = []
    for c, (gt, ft) in zip(cases, tabs):
        terms.append("runp %s %s %s %s %s %s %s %s" % (
            clist(gt, lambda r: "(%s, %s, %s)" % (cfloat(r[0]), cfloat(r[1]), cfloat(r[2]))),
            clist(ft, lambda r: "(%s, %s, %s, %s, %s, %s)" % (
                cfloat(r[0]), cfloat(r[1]), cfloat(r[2]), cfloat(r[3]), cfloat(r[4]),
                copt(r[5], lambda ab: cpair(cfloat(ab[0]), cfloat(ab[1]))))),
            clist(c["posts"], lambda r: cpair(cfloat(r[0]), cfloat(r[1]))), clist(c["fixed"], cbool),
            c_floats(c["ob"]), c_floats(c["rb"]), cfloat(c["qw"]), cfloat(c["ms"])))
    out = []
    for ch in chunks(terms):
        body = POST_HDR + "Definition cases := %s.\nEval vm_compute in cases.\n" % clist(ch)
        out += ctx.coq_eval(body, requires=REQ, tag="post")[0]
    conv = []
    for r in out:
        if r is None:
            conv.append(None)
        else:
            conv.append([None if x is None else (float(x[1][0]), float(x[1][1])) for x in r[1]])
    return conv


def same_posterior(a, b, **kw):
    """impl result (list of None | (alpha, beta), or an error string) vs model (None = rejected)"""
    if isinstance(a, str):
        return b is None
    if b is None or len(a) != len(b):
        return False
    for x, y in zip(a, b):
        if (x is None) != (y is None):
            return False
        if x is not None and not (close(x[0], y[0], **kw) and close(x[1], y[1], **kw)):
            return False
    return True


# ------------------------------------------------------------------ the glue of ExpectationPropagation.rescale
def model_ep_breaks(ctx, items):
    """items: dicts with means, fixed, liks, parent, child, cpss -> (ob', rb, x') or None"""
    terms = []
    for it in items:
        terms.append("ep_rescale_breaks FNum %s %s %s %s %s" % (
            c_floats(it["means"]), clist(it["fixed"], cbool), c_liks(it["liks"]), c_edges(it),
            clist(it["cpss"], lambda cps: clist(cps, cnat))))
    out = []
    for ch in chunks(terms):
        body = "Definition cases := %s.\nEval vm_compute in cases.\n" % clist(ch)
        out += ctx.coq_eval(body, requires=REQ, tag="epbreaks")[0]
    conv = []
    for r in out:
        if r is None:
            conv.append(None)
        else:
            ob, rb, x = r[1]
            conv.append(([float(v) for v in ob], [float(v) for v in rb], [float(v) for v in x]))
    return conv


def changepoints_of_call(args):
    """the changepoints _fixed_changepoints returned inside one recorded mutational_timescale call"""
    times, liks, fixed, parent, child, max_intervals = args
    case = {"t": [float(x) for x in times], "liks": [[float(a), float(b)] for a, b in liks],
            "parent": [int(x) for x in parent], "child": [int(x) for x in child]}
    area = impl_area(case)
    if isinstance(area, str):
        return case, None, None
    return case, area, impl_changepoints(area, max_intervals)


# ------------------------------------------------------------------ rescale_tree_sequence (C37)
class ModRecorder:
    """wraps functions that rescale_tree_sequence looks up in tsdate.rescaling"""
    NAMES = ["count_mutations", "mutational_timescale", "piecewise_scale_point_estimate"]

    def __init__(self):
        import tsdate.rescaling as R
        self.R = R
        self.calls = []
        self.orig = {}

    def __enter__(self):
        for nm in self.NAMES:
            f = getattr(self.R, nm)
            self.orig[nm] = f

            def g(*a, _f=f, _nm=nm, **kw):
                args = [np.array(x).copy() if isinstance(x, np.ndarray) else x for x in a]
                try:
                    r = _f(*a, **kw)
                except Exception as e:  # noqa
                    self.calls.append((_nm, args, e))
                    raise
                rr = tuple(np.array(x).copy() for x in r) if isinstance(r, tuple) else np.array(r).copy()
                self.calls.append((_nm, args, rr))
                return r
            setattr(self.R, nm, g)
        return self

    def __exit__(self, *exc):
        for nm, f in self.orig.items():
            setattr(self.R, nm, f)
        return False


def run_rescale_ts(ts, mu, **kw):
    """-> (status, output ts or None, recorded calls)"""
    import tsdate.rescaling as R
    with ModRecorder() as rec:
        try:
            with warnings.catch_warnings():
                warnings.simplefilter("ignore")
                out = R.rescale_tree_sequence(ts, mu, **kw)
            st = "ok"
        except AssertionError as e:
            out, st = None, "raise:AssertionError:" + str(e)[:60]
        except Exception as e:  # noqa
            out, st = None, _exc(e)
    return st, out, rec.calls


def model_rescale_ts(ctx, items):
    """items: dicts with t, fixed, liks, parent, child, cpss, muts [(edge or None, node)]"""
    terms = []
    for it in items:
        terms.append("rescale_ts_times FNum %s %s %s %s %s %s" % (
            c_floats(it["t"]), clist(it["fixed"], cbool), c_liks(it["liks"]), c_edges(it),
            clist(it["cpss"], lambda cps: clist(cps, cnat)),
            clist(it["muts"], lambda m: cpair(copt(m[0], cnat), cnat(m[1])))))
    out = []
    for ch in chunks(terms):
        body = "Definition cases := %s.\nEval vm_compute in cases.\n" % clist(ch)
        out += ctx.coq_eval(body, requires=REQ, tag="rescalets")[0]
    conv = []
    for r in out:
        if r is None:
            conv.append(None)
        else:
            conv.append(([float(v) for v in r[1][0]], [float(v) for v in r[1][1]]))
    return conv


# ------------------------------------------------------------------ one iteration at a time
def model_steps(ctx, items):
    """one iteration of the rescaling loop (mutational_timescale + piecewise_scale_point_estimate)
    from the node times the implementation had at that iteration.  Per-iteration rather than
    whole-loop, because rounding differences of 1 ulp can turn two equal rescaled times into two
    distinct ones, which changes the epoch structure of the NEXT iteration (and the meaning of its
    recorded changepoint indexes).  -> None | (x', ob, rb)"""
    terms = []
    for it in items:
        terms.append("rescale_loop FNum %s %s %s [%s] %s None" % (
            c_liks(it["liks"]), c_edges(it), clist(it["fixed"], cbool), clist(it["cps"], cnat), c_floats(it["t"])))
    out = []
    for ch in chunks(terms):
        body = "Definition cases := %s.\nEval vm_compute in cases.\n" % clist(ch)
        out += ctx.coq_eval(body, requires=REQ, tag="step")[0]
    conv = []
    for r in out:
        if r is None:
            conv.append(None)
        else:
            x, last = r[1]
            ob, rb = last[1]
            conv.append(([float(v) for v in x], [float(v) for v in ob], [float(v) for v in rb]))
    return conv


def model_recover(ctx, items):
    """the breakpoint recovery of ExpectationPropagation.rescale: items with means, fixed, x, rb"""
    terms = ["recover_breaks FNum %s %s %s %s" % (c_floats(it["means"]), clist(it["fixed"], cbool),
                                                  c_floats(it["x"]), c_floats(it["rb"])) for it in items]
    out = []
    for ch in chunks(terms):
        body = "Definition cases := %s.\nEval vm_compute in cases.\n" % clist(ch)
        out += ctx.coq_eval(body, requires=REQ, tag="recover")[0]
    return [None if r is None else [float(v) for v in r[1]] for r in out]


def loop_steps(calls, fixed, parent, child, liks=None):
    """pair up the recorded mutational_timescale / piecewise_scale_point_estimate calls of one run:
    -> list of dicts (model input + recorded outputs), or None when a changepoint vector is unusable"""
    tcalls = [c for c in calls if c[0] == "mutational_timescale"]
    ecalls = [c for c in calls if c[0] == "piecewise_scale_point_estimate"]
    steps = []
    for k, (_nm, args, res) in enumerate(tcalls):
        case, _area, cps = changepoints_of_call(args)
        if cps is None:
            return None
        st = {"t": case["t"], "liks": liks if liks is not None else case["liks"], "parent": parent, "child": child,
              "fixed": fixed, "cps": cps, "ts_res": res, "pe_res": ecalls[k][2] if k < len(ecalls) else None}
        steps.append(st)
    return steps


def step_agrees(st, m, **tol):
    """recorded outcome of one iteration vs the model's"""
    if isinstance(st["ts_res"], Exception) or st["pe_res"] is None or isinstance(st["pe_res"], Exception):
        return m is None
    if m is None:
        return False
    return (close_list([float(v) for v in st["ts_res"][0]], m[1], **tol)
            and close_list([float(v) for v in st["ts_res"][1]], m[2], **tol)
            and close_list([float(v) for v in st["pe_res"]], m[0], **tol))
