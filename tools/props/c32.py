"""C32 -- time metadata writing follows the set_metadata policy."""
import numpy as np

from props import _glue as G

ENV_BY_TIER = {"quick": {"NUMBA_DISABLE_JIT": "1"}, "thorough": {"NUMBA_DISABLE_JIT": "1"}}

RULE = ("exhaustive product: %d metadata kinds (no schema / raw bytes / permissive, typed, restrictive, tsdate-default(+extra keys) and "
        "value-dependent JSON schemas / struct codecs with and without mn,vr / undecodable or non-dict content) "
        "x {nodes, mutations} x set_metadata in {None, True, False} x {variance present, None}, on small msprime "
        "inputs with fabricated means/variances (plain, integral, NaN/inf/-0, tiny); plus wrong-length arrays; "
        "then get_modified_ts with fabricated Results for the three method classes and full date() runs. "
        "A case is non-trivial when a write was requested (set_metadata is not False and a variance exists); "
        "distinct by content hash" % len(G.KINDS))
ASSUME = ["tskit's metadata codec (decode_row / validate_and_encode_row) is external: its answers on the finitely "
          "many (schema, bytes)/(schema, dict) pairs of a case are tabulated by the harness and the Coq model runs "
          "on that table", "log records of logger tsdate.core identify the warning / clearing / schema-setting events"]

FINDING_SIG = "c32:codec-exception-escapes"
CODEC_EXC = ("JSONDecodeError", "UnicodeDecodeError", "AttributeError", "error", "OverflowError")


def default_schema_of(table):
    from tsdate import schemas
    return schemas.default_node_schema if type(table).__name__ == "NodeTable" else schemas.default_mutation_schema


def direct_cases(ctx, reps):
    """(description, MetaCase, method, table, mean, var, default)"""
    out = []
    rng = ctx.rng
    for rep in range(reps):
        for kind in G.KINDS:
            ts = G.pooled_ts(rng, size=ctx.n(8, 30), multi=rng.random() < 0.3, min_muts=2)
            for which in ("nodes", "mutations"):
                tables = ts.dump_tables()
                table = getattr(tables, which)
                G.decorate(table, kind, rng)
                n = table.num_rows
                style = "small" if kind in ("json_vr_min",) else ("ints" if kind == "json_mn_integer" and rng.random() < 0.5 else None)
                mean = G.random_values(rng, n, style)
                var = G.random_values(rng, n, style)
                for sm in (None, True, False):
                    for has_var in (True, False):
                        out.append(dict(kind=kind, which=which, sm=sm, has_var=has_var, ts=ts, table=table,
                                        tables=tables, mean=mean, var=var if has_var else None))
    # wrong lengths: the assertion
    for _ in range(4):
        ts = G.pooled_ts(rng, size=ctx.n(8, 30), multi=False, min_muts=2)
        tables = ts.dump_tables()
        table = tables.nodes
        n = table.num_rows
        k = rng.choice([n - 1, n + 1])
        out.append(dict(kind="none", which="nodes", sm=rng.choice([None, True]), has_var=True, ts=ts, table=table,
                        tables=tables,
                        mean=G.random_values(rng, k, "plain"), var=G.random_values(rng, rng.choice([n, k]), "plain")))
    return out


def describe(c):
    return {"kind": c["kind"], "table": c["which"], "set_metadata": c["sm"], "variance": c["has_var"],
            "rows": c["table"].num_rows, "mean": [repr(x) for x in c["mean"][:6]],
            "var": None if c["var"] is None else [repr(x) for x in c["var"][:6]]}


def replay_payload(c):
    t = c["table"]
    return {"kind": c["kind"], "table": c["which"], "set_metadata": c["sm"],
            "schema": repr(t.metadata_schema), "rows": [repr(b) for b in G.table_rows(t)][:20],
            "replay": {"fn": "set_time_metadata", "tables": G.tc_to_json(c["tables"]), "which": c["which"],
                       "sm": c["sm"], "mean": G.hexlist(c["mean"]), "var": G.hexlist(c["var"])}}


def oracle_direct(ctx, c, t1, exc, events):
    """the policy itself on one direct call"""
    import tskit
    table = c["table"]
    default = default_schema_of(table)
    schema0, rows0 = table.metadata_schema, G.table_rows(table)
    if len(c["mean"]) != table.num_rows or (c["var"] is not None and len(c["var"]) != table.num_rows):
        return
    exp = G.policy_expected(schema0, rows0, c["mean"], c["var"], default, c["sm"])
    if exc is not None:
        if exp[0] == "outside" and not isinstance(exc, (tskit.MetadataEncodingError, tskit.MetadataValidationError, AssertionError)):
            ctx.oracle_fail("%s:%s" % (FINDING_SIG, type(exc).__name__),
                            "set_metadata=%r kind=%s: %r escapes set_time_metadata" % (c["sm"], c["kind"], exc),
                            replay_payload(c))
        else:
            ctx.oracle_fail("c32:unexpected-exception:%s" % type(exc).__name__, repr(exc), replay_payload(c))
        return
    warned = any(e[0] == 0 for e in events)
    bad = G.check_policy(c["which"], schema0, rows0, t1, c["mean"], c["var"], default, c["sm"], warned)
    if bad:
        ctx.oracle_fail(bad[0], bad[1], replay_payload(c))


def run_direct(ctx, model_ok, reps=None):
    cases = direct_cases(ctx, reps or ctx.n(2, 12))
    methods = {}
    impl = []
    terms = []
    for c in cases:
        key = (id(c["ts"]), c["sm"])
        if key not in methods:
            methods[key] = G.make_method(c["ts"], c["sm"])
        m = methods[key]
        table = c["table"]
        default = default_schema_of(table)
        mc = G.MetaCase(table, c["mean"], c["var"], default, c["sm"])
        t1, exc, events = G.call_set_time_metadata(m, table, c["mean"], c["var"], default)
        res = mc.impl_result(t1, exc, events)
        impl.append(res)
        terms.append(mc)
        write_requested = c["sm"] is not False and c["var"] is not None
        label = "raised" if res[0] == 1 else {(): "no-log", (0,): "warn", (2,): "set-schema",
                                                 (1, 2): "clear+set-schema"}.get(tuple(res[3]), str(res[3]))
        ctx.case(describe(c), nontrivial=write_requested, kind="direct/%s/sm=%s" % (label, c["sm"]))
        oracle_direct(ctx, c, t1, exc, events)
    if model_ok:
        model = G.eval_meta_cases(ctx, terms)
        for c, a, b in zip(cases, impl, model):
            a = (a[0], a[1], [list(r) for r in a[2]], list(a[3]))
            ctx.corr("set_time_metadata", a == b, "impl=%r model=%r" % (a, b),
                     replay=None if a == b else dict(replay_payload(c), impl=a, model=b))


def fabricated_results(rng, ts, cls):
    from tsdate import core
    n, k = ts.num_nodes, ts.num_mutations
    mean = np.array(ts.nodes_time) + np.array([rng.random() for _ in range(n)])
    mean[list(ts.samples())] = ts.nodes_time[list(ts.samples())]
    var = np.array(G.random_values(rng, n, "plain"))
    if cls == "variational_gamma":
        return core.Results(mean, var, np.array(G.random_values(rng, k, "plain")),
                            np.array(G.random_values(rng, k, rng.choice(["plain", "special"]))), None,
                            ts.mutations_node, None)
    if cls == "inside_outside":
        return core.Results(mean, var, None, None, 0.0, ts.mutations_node, None)
    return core.Results(mean, None, None, None, 0.0, ts.mutations_node, None)


def check_output(ctx, label, its, ots, node_mv, mut_mv, sm, events, payload):
    """policy on both tables of an output tree sequence (inputs with one mutation per site, so
    mutation rows keep their order)"""
    from tsdate import schemas
    t0, t1 = its.tables, ots.tables
    for which, mv, default in (("nodes", node_mv, schemas.default_node_schema),
                               ("mutations", mut_mv, schemas.default_mutation_schema)):
        a, b = getattr(t0, which), getattr(t1, which)
        tname = "NodeTable" if which == "nodes" else "MutationTable"
        warned = any(e == (0, tname) for e in events)
        mean, var = mv if mv is not None else (None, None)
        bad = G.check_policy("%s:%s" % (label, which), a.metadata_schema, G.table_rows(a), b, mean, var,
                             default, sm, warned)
        if bad:
            ctx.oracle_fail(bad[0], bad[1], payload)


def run_modified(ctx):
    """get_modified_ts with fabricated Results, all three method classes"""
    rng = ctx.rng
    for _ in range(ctx.n(300, 2500)):
        cls = rng.choice(["variational_gamma", "inside_outside", "maximization"])
        sm = rng.choice([None, True, False])
        kn, km = rng.choice(G.KINDS), rng.choice(G.KINDS)
        ts = G.maybe_permuted(rng, G.pooled_ts(rng, size=ctx.n(8, 30), multi=False, min_muts=2), 0.3)
        tables = ts.dump_tables()
        G.decorate(tables.nodes, kn, rng)
        G.decorate(tables.mutations, km, rng)
        its = tables.tree_sequence()
        method = G.make_method(its, sm, cls)
        res = fabricated_results(rng, its, cls)
        payload = {"level": "get_modified_ts", "method": cls, "set_metadata": sm, "node_kind": kn,
                   "mutation_kind": km,
                   "replay": {"fn": "get_modified", "tables": G.tc_to_json(its.dump_tables()), "cls": cls, "sm": sm,
                              "res": G.results_to_json(res)}}
        ctx.case({k: payload[k] for k in ("level", "method", "set_metadata", "node_kind", "mutation_kind")},
                 nontrivial=sm is not False and cls != "maximization", kind="modified/" + cls)
        exc = None
        with G.LogTap() as tap:
            try:
                ots = method.get_modified_ts(res)
            except Exception as e:   # noqa: BLE001
                exc = e
        if exc is not None:
            crash = (kn in G.CRASH_KINDS) or (km in G.CRASH_KINDS and cls == "variational_gamma")
            if crash and sm is not False and cls != "maximization" and type(exc).__name__ in CODEC_EXC:
                ctx.oracle_fail("%s:%s" % (FINDING_SIG, type(exc).__name__), repr(exc), payload)
            elif not G.raised_in(exc, "set_time_metadata"):
                ctx.tally("get_modified-raised-elsewhere(C35):" + type(exc).__name__)
            else:
                ctx.oracle_fail("c32:unexpected-exception:%s" % type(exc).__name__, repr(exc), payload)
            continue
        node_mv = None if res.posterior_var is None else (list(res.posterior_mean), list(res.posterior_var))
        mut_mv = None if res.mutation_var is None else (list(res.mutation_mean), list(res.mutation_var))
        check_output(ctx, cls, its, ots, node_mv, mut_mv, sm, tap.events, payload)


def posterior_arrays(method_name, its, fit):
    """(node mean/var, mutation mean/var) as the fit object reports them"""
    if method_name == "variational_gamma":
        nm, nv = fit.node_moments()
        mm, mv = fit.mutation_moments()
        return (list(nm), list(nv)), (list(mm), list(mv))
    if method_name == "inside_outside":
        from tsdate import core
        nm, nv = core.DiscreteTimeMethod.mean_var(its, fit.posterior_grid)
        return (list(nm), list(nv)), None
    return None, None


def run_date(ctx):
    """full date() runs: methods x set_metadata x kinds"""
    import tsdate
    rng = ctx.rng
    for _ in range(ctx.n(250, 2500)):
        method = rng.choice(["variational_gamma", "variational_gamma", "inside_outside", "maximization"])
        sm = rng.choice([None, True, False, None])
        kn, km = rng.choice(G.KINDS), rng.choice(G.KINDS)
        ts = G.maybe_permuted(rng, G.maybe_root_mutations(rng, G.pooled_ts(rng, size=ctx.n(8, 30), multi=False,
                                                                          min_muts=2), 0.3), 0.3)
        if rng.random() < 0.25:
            # date -> annotate -> re-date: the first dating installs tsdate's default schemas on
            # schema-less tables, then every row gets further keys
            try:
                first = tsdate.date(ts, mutation_rate=0.5, max_iterations=1, rescaling_intervals=0)
            except Exception:   # noqa: BLE001
                continue
            tables = first.dump_tables()
            G.annotate_rows(tables.nodes, rng)
            G.annotate_rows(tables.mutations, rng)
            kn = km = "dated-then-annotated"
        else:
            tables = ts.dump_tables()
            G.decorate(tables.nodes, kn, rng)
            G.decorate(tables.mutations, km, rng)
        its = tables.tree_sequence()
        kw = dict(mutation_rate=rng.choice([0.05, 0.5]), method=method, set_metadata=sm, return_fit=True)
        if method == "variational_gamma":
            kw.update(max_iterations=2, rescaling_intervals=rng.choice([0, 2]))
        else:
            kw.update(population_size=1.0)
        payload = {"level": "date", "kwargs": {k: v for k, v in kw.items()}, "node_kind": kn,
                   "mutation_kind": km,
                   "replay": {"fn": "date", "tables": G.tc_to_json(its.dump_tables()), "kw": G.plain(kw)}}
        ctx.case({"level": "date", "method": method, "set_metadata": sm, "node_kind": kn, "mutation_kind": km},
                 nontrivial=sm is not False and method != "maximization", kind="date/" + method)
        exc = None
        with G.LogTap() as tap:
            try:
                ots, fit = tsdate.date(its, **kw)
            except Exception as e:   # noqa: BLE001
                exc = e
        if exc is not None:
            crash = (kn in G.CRASH_KINDS) or (km in G.CRASH_KINDS and method == "variational_gamma")
            if crash and sm is not False and method != "maximization" and type(exc).__name__ in CODEC_EXC:
                ctx.oracle_fail("%s:%s" % (FINDING_SIG, type(exc).__name__), repr(exc), payload)
            elif not G.raised_in(exc, "set_time_metadata"):
                ctx.tally("date-raised-elsewhere(C35):" + type(exc).__name__)   # not the metadata policy's business
            else:
                ctx.oracle_fail("c32:unexpected-exception:%s" % type(exc).__name__, repr(exc), payload)
            continue
        node_mv, mut_mv = posterior_arrays(method, its, fit)
        check_output(ctx, method, its, ots, node_mv, mut_mv, sm, tap.events, payload)


def run(ctx, model_ok=True):
    G.quiet_logging()
    run_direct(ctx, model_ok)
    run_modified(ctx)
    run_date(ctx)


def search(ctx):
    run_direct(ctx, False, reps=4)
    if not ctx.oracle_fails:
        run_modified(ctx)


def replay(ctx, data):
    """re-run one saved case; True iff the set_metadata policy holds on it"""
    import tsdate
    G.quiet_logging()
    case = data.get("case") or {}
    r = case.get("replay")
    if not r:
        print(str(case)[:3000])
        return False
    tables = G.tc_from_json(r["tables"])
    before = len(ctx.oracle_fails) + len(ctx.known_hits)
    if r["fn"] == "set_time_metadata":
        ts = tables.tree_sequence()
        table = getattr(tables, r["which"])
        mean = [float(x) for x in G.unhexlist(r["mean"])]
        var = None if r["var"] is None else [float(x) for x in G.unhexlist(r["var"])]
        c = dict(kind="replay", which=r["which"], sm=r["sm"], has_var=var is not None, ts=ts, table=table,
                 tables=tables, mean=mean, var=var)
        t1, exc, events = G.call_set_time_metadata(G.make_method(ts, r["sm"]), table, mean, var, default_schema_of(table))
        oracle_direct(ctx, c, t1, exc, events)
    else:
        its = tables.tree_sequence()
        exc = ots = None
        with G.LogTap() as tap:
            try:
                if r["fn"] == "date":
                    kw = G.unplain(r["kw"])
                    ots, fit = tsdate.date(its, **kw)
                    node_mv, mut_mv = posterior_arrays(kw["method"], its, fit)
                    sm, label = kw.get("set_metadata"), kw["method"]
                else:
                    res = G.results_from_json(r["res"])
                    ots = G.make_method(its, r["sm"], r["cls"]).get_modified_ts(res)
                    node_mv = None if res.posterior_var is None else (list(res.posterior_mean), list(res.posterior_var))
                    mut_mv = None if res.mutation_var is None else (list(res.mutation_mean), list(res.mutation_var))
                    sm, label = r["sm"], r["cls"]
            except Exception as e:   # noqa: BLE001
                exc = e
        if exc is not None:
            print("raises", repr(exc))
            return False
        check_output(ctx, label, its, ots, node_mv, mut_mv, sm, tap.events, case)
    return G.replay_verdict(ctx)
