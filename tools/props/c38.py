"""C38 -- ignore_oldest_root ignores exactly the oldest root."""
import math
import numpy as np
from props import _discrete as D

ENV_BY_TIER = {"quick": {"NUMBA_DISABLE_JIT": "1"}, "thorough": {}}
ENV = {"XDG_CACHE_HOME": "/verif/.work/disc/cache"}
COQ_REQ = ("lib.Num", "model.Discrete", "model.DiscreteFloat")
TOL = 1e-9
K5 = "K5:highest-id-not-oldest-root"

RULE = ("inputs with ignore_oldest_root=True: msprime tree sequences (2-6 contemporaneous samples, recombination, "
        "so several roots of different ages; 35% with 8-25 expected recombinations so that lineages re-attach to the "
        "grand MRCA), a hand-built family in which a node hangs under the oldest root on two disjoint intervals and "
        "under another parent in between (two edges from the oldest root to one child), and single trees of every shape up to 5 leaves, in their natural "
        "numbering (the oldest root has the highest id) and with the non-sample nodes renumbered at random (the "
        "highest id then usually belongs to another node); random prior grids, both probability spaces, outside "
        "standardisation and cache_inside on/off, num_threads None/1(/2), numpy-typed option values (np.bool_ for "
        "ignore_oldest_root), 20% of the multi-tree inputs with a unary chain above a local root, ~40% with vlib.gen.exotic "
        "decorations (extra flag bits, ALL nodes renumbered so that samples are not listed first, mutation-free sites, "
        "allele strings, populations, mutation times), 15% with tied node times. A case is non-trivial when the oldest root has a non-sample child (its messages "
        "matter); distinct by content hash."
        "About half of the inputs carry 1-3 extra mutations that sit on NO edge (above the root of the local tree; valid tskit input); the references count only mutations on edges, computed from the tables.")
ASSUME = ["metamorphic part: with the option, mutations added on an edge below the oldest root must leave every other "
          "node's posterior unchanged",
          "the specification side is an independent dense re-implementation of the inside/outside equations "
          "(tools/props/_discrete.py reference_inside_outside) with the ignored node chosen by TIME; it agrees "
          "with the implementation to 1e-15 whenever the ignored node is the same",
          "scipy.stats.poisson values enter model and reference as a table"]


def gen_cases(ctx, n_multi, n_single):
    rng = ctx.rng
    cases = []
    shapes = [s for k in range(3, 6) for s in D.tree_shapes(k)]
    nfam = max(4, (n_multi + n_single) // 8)
    for k in range(n_multi + n_single + nfam):
        if k >= n_multi + n_single:
            d = D.reattach_family(rng)          # a child with two edges from the oldest root
            kind = "reattach"
        elif k < n_multi:
            if rng.random() < 0.35:
                d = D.sim_dict(rng, n=rng.randint(4, 6), rec_boost=True)   # many trees: lineages re-attach to the root
            else:
                d = D.sim_dict(rng, n=rng.randint(2, 6))
            kind = "multi"
        else:
            d = D.shape_to_tables(rng.choice(shapes), rng, L=rng.choice([1.0, 10.0, 1000.0]))
            d = D.canon(D.add_mutations(d, [rng.choice([0, 0, 1, 1, 2, 3]) for _ in d["edges"]], rng))
            kind = "single"
        if kind == "multi" and rng.random() < 0.2:
            d = D.add_unary_chain(d, rng) or d
        renum = rng.random() < (0.25 if kind == "reattach" else 0.5)
        if renum:
            d, _ = D.renumber(d, rng)
        cases.append(D.make_case(rng, d, kind=kind + ("/renumbered" if renum else "/natural"),
                                 ignore_oldest_root=True, **D.random_options(rng, ctx.tier == "thorough")))
    return cases


def rel(a, b):
    if a == b:
        return 0.0
    if math.isnan(a) or math.isnan(b):
        return 0.0 if (math.isnan(a) and math.isnan(b)) else math.inf
    return abs(a - b) / max(abs(a), abs(b), 1e-300)


def lin_rows(case, rows):
    if case["space"] == D.LIN:
        return rows
    return [None if r is None else [math.exp(x) for x in r] for r in rows]


def spec_check(ctx, case, res, stats):
    """fit.outside must be what the equations give when exactly the OLDEST root's messages are left out"""
    d = case["ts"]
    n = len(d["nodes_time"])
    old = D.oldest_node(d)
    if old is None:
        return
    _ins, want = D.reference_inside_outside(case, ignored=old, out_std=bool(case.get("out_std", True)))
    got = lin_rows(case, res["outside"])
    worst = 0.0
    for u in range(n):
        if want[u] is None:
            continue
        for x, y in zip(want[u], got[u]):
            worst = max(worst, rel(x, y))
    highest_is_oldest = (old == n - 1)
    if highest_is_oldest:
        stats["natural"] = max(stats.get("natural", 0.0), worst)
    if not worst <= TOL:
        sig = "outside-does-not-ignore-oldest-root" if highest_is_oldest else K5
        ctx.oracle_fail(sig, "fit.outside differs by %.3g from the outside pass without the messages of the oldest "
                        "root (node %d; highest id %d)" % (worst, old, n - 1),
                        {"case": case, "oldest_root": old, "impl": got, "expected": want})
    return worst


def dates(case):
    import tsdate
    ts = D.ts_from_dict(case["ts"])
    new = tsdate.inside_outside(ts, mutation_rate=D.opt(case, "mu", case["mu"]), priors=D.make_priors(case, ts),
                                eps=D.opt(case, "eps", case["eps"]), probability_space=case["space"],
                                ignore_oldest_root=D.opt(case, "ign", True), num_threads=case.get("num_threads"),
                                cache_inside=D.opt(case, "cache", bool(case.get("cache_inside"))),
                                outside_standardize=D.opt(case, "out_std", bool(case.get("out_std", True))),
                                record_provenance=False)
    return [float(x) for x in new.nodes_time]


def api_check(ctx, case, res, stats):
    """option plumbing: the PUBLIC entry points (tsdate.inside_outside / tsdate.date) called with
    ignore_oldest_root=True and the case's other options must hand back the same outside values as the direct drive
    of BeliefPropagation.outside_pass(ignore_oldest_root=True) that the checks above examined"""
    import tsdate
    ts = D.ts_from_dict(case["ts"])
    kw = dict(mutation_rate=D.opt(case, "mu", case["mu"]), priors=D.make_priors(case, ts), eps=D.opt(case, "eps", case["eps"]),
              probability_space=case["space"], ignore_oldest_root=D.opt(case, "ign", True), num_threads=case.get("num_threads"),
              cache_inside=D.opt(case, "cache", bool(case.get("cache_inside"))), record_provenance=False, return_fit=True)
    std = case.get("out_std", True)
    if not (std and ctx.rng.random() < 0.5):        # default (None) half of the time when standardisation is on
        kw["outside_standardize"] = D.opt(case, "out_std", bool(std))
    via_date = ctx.rng.random() < 0.4
    try:
        _new, fit = tsdate.date(ts, method="inside_outside", **kw) if via_date else tsdate.inside_outside(ts, **kw)
    except Exception as e:
        ctx.oracle_fail("exception:" + type(e).__name__, "public inside_outside(ignore_oldest_root=True) raised %r" % (e,), {"case": case})
        return
    worst = 0.0
    for u, want in enumerate(res["outside"]):
        if want is None:
            continue
        got = [float(a) for a in fit.outside[u]]
        for x, y in zip(want, got):
            worst = max(worst, rel(x, y))
    ctx.tally("api-plumbing/" + ("date" if via_date else "inside_outside") + ("/std-default" if "outside_standardize" not in kw else "/std=%s" % bool(std)))
    stats["api"] = max(stats.get("api", 0.0), worst)
    if not worst <= 1e-12:
        ctx.oracle_fail("public-entry-point-loses-ignore_oldest_root",
                        "fit.outside from the public call (%s, outside_standardize=%r) differs by %.3g from "
                        "BeliefPropagation.outside_pass(ignore_oldest_root=True, standardize=%r)"
                        % ("date" if via_date else "inside_outside", kw.get("outside_standardize", "default"), worst, bool(std)), {"case": case})


def renumber_check(ctx, case, stats):
    """public API: renumbering the non-sample nodes must not change the dates"""
    rng = ctx.rng
    d2, m = D.renumber(case["ts"], rng)
    other = dict(case, ts=d2, prior={str(m[int(u)]): r for u, r in case["prior"].items()},
                 nonfixed_order=[m[u] for u in case["nonfixed_order"]])
    try:
        a = dates(case)
        b = dates(other)
    except Exception as e:
        ctx.oracle_fail("exception:" + type(e).__name__, "inside_outside(ignore_oldest_root=True) raised %r" % (e,),
                        {"case": case})
        return
    n = len(a)
    worst = max(rel(a[u], b[m[u]]) for u in range(n))
    natural = (D.oldest_node(case["ts"]) == n - 1) and (D.oldest_node(d2) == n - 1)
    if natural:
        stats["renumber_natural"] = max(stats.get("renumber_natural", 0.0), worst)
    if not worst <= TOL:
        sig = "renumbering-changes-dates" if natural else K5
        ctx.oracle_fail(sig, "dates change by %.3g when non-sample nodes are renumbered" % worst,
                        {"case": case, "transformed": other, "map": {str(k): v for k, v in m.items()}})


def multi_edge_child(d):
    """some non-sample child has two or more edges from the oldest root (disjoint intervals)"""
    old = D.oldest_node(d)
    cnt = {}
    for _l, _r, p, c in d["edges"]:
        if p == old and not d["nodes_flags"][c]:
            cnt[c] = cnt.get(c, 0) + 1
    return any(v >= 2 for v in cnt.values())


def posterior_rows(case, res):
    """normalised inside*outside of every non-sample node, in linear numbers"""
    ins = lin_rows(case, res["inside"])
    out = lin_rows(case, res["outside"])
    rows = []
    for a, b in zip(ins, out):
        if a is None or b is None:
            rows.append(None)
            continue
        v = [x * y for x, y in zip(a, b)]
        t = sum(v)
        rows.append([x / t for x in v] if t > 0 else None)
    return rows


def mutation_check(ctx, case, res, stats):
    """with ignore_oldest_root=True the messages of the oldest root are left out, so the number of mutations
    on an edge whose parent is the oldest root must not affect the posterior of any OTHER node"""
    d = case["ts"]
    n = len(d["nodes_time"])
    old = D.oldest_node(d)
    if old is None:
        return
    cand = [k for k, (_l, _r, p, _c) in enumerate(d["edges"]) if p == old]
    if not cand:
        return
    k = ctx.rng.choice(cand)
    counts = [0] * len(d["edges"])
    counts[k] = ctx.rng.randint(1, 3)
    d2 = D.canon(D.add_mutations(d, counts, ctx.rng))
    if [e[2:] for e in d2["edges"]] != [e[2:] for e in d["edges"]]:
        return
    other = dict(case, ts=d2)
    try:
        res2 = D.run_io_impl(other)
    except Exception as e:
        ctx.oracle_fail("exception:" + type(e).__name__, "outside_pass raised %r after adding mutations below the root" % (e,),
                        {"case": other})
        return
    pa, pb = posterior_rows(case, res), posterior_rows(other, res2)
    worst = 0.0
    for u in range(n):
        if u == old or pa[u] is None or pb[u] is None:
            continue
        worst = max(worst, max(abs(x - y) for x, y in zip(pa[u], pb[u])))
    natural = (old == n - 1)
    if natural:
        stats["mutation"] = max(stats.get("mutation", 0.0), worst)
    if not worst <= TOL:
        ctx.oracle_fail("root-edge-mutations-change-posteriors" if natural else K5,
                        "adding mutations on an edge below the oldest root changes another node's posterior by %.3g" % worst,
                        {"case": case, "with_mutations": other, "edge": k})


def matters(case):
    d = case["ts"]
    old = D.oldest_node(d)
    return old is not None and any(p == old and not d["nodes_flags"][c] for _l, _r, p, c in d["edges"])


def run(ctx, model_ok=True):
    cases = gen_cases(ctx, ctx.n(30, 250), ctx.n(15, 100))
    stats = {}
    res = []
    for c in cases:
        n = len(c["ts"]["nodes_time"])
        nat = D.oldest_node(c["ts"]) == n - 1
        ctx.case(D.summary(c), nontrivial=matters(c),
                 kind=c["space"] + "/" + c["kind"] + ("/highest-id-is-oldest-root" if nat else "/highest-id-is-not-oldest-root"))
        try:
            r = D.run_io_impl(c)
        except Exception as e:
            ctx.oracle_fail("exception:" + type(e).__name__, "outside_pass(ignore_oldest_root=True) raised %r" % (e,),
                            {"case": c})
            res.append(None)
            continue
        res.append(r)
        spec_check(ctx, c, r, stats)
        renumber_check(ctx, c, stats)
        mutation_check(ctx, c, r, stats)
        api_check(ctx, c, r, stats)
        if multi_edge_child(c["ts"]):
            ctx.tally("child-with-several-edges-from-oldest-root" + ("/natural" if nat else "/renumbered"))
    ctx.notes["max_posterior_change_from_root_edge_mutations"] = stats.get("mutation")
    ctx.notes["max_rel_diff_to_spec_when_highest_id_is_oldest_root"] = stats.get("natural")
    ctx.notes["max_rel_change_under_renumbering_keeping_oldest_root_last"] = stats.get("renumber_natural")
    ctx.notes["tolerance"] = TOL
    if model_ok:
        D.io_correspondence(ctx, cases, res, COQ_REQ, label="ignore_oldest_root")


def search(ctx):
    stats = {}
    for c in gen_cases(ctx, ctx.n(200, 800), ctx.n(100, 300)):
        try:
            r = D.run_io_impl(c)
        except Exception:
            continue
        spec_check(ctx, c, r, stats)
        renumber_check(ctx, c, stats)
        mutation_check(ctx, c, r, stats)
        api_check(ctx, c, r, stats)
        if ctx.oracle_fails:
            return


def replay(ctx, data):
    case = data["case"]["case"]
    before = len(ctx.oracle_fails) + len(ctx.known_hits)
    r = D.run_io_impl(case)
    spec_check(ctx, case, r, {})
    renumber_check(ctx, case, {})
    mutation_check(ctx, case, r, {})
    return len(ctx.oracle_fails) + len(ctx.known_hits) == before
