"""C38 -- ignore_oldest_root ignores exactly the oldest root."""
import math
import numpy as np
from props import _discrete as D

ENV_BY_TIER = {"quick": {"NUMBA_DISABLE_JIT": "1"}, "thorough": {}}
ENV = {"XDG_CACHE_HOME": "/verif/.work/disc/cache"}
COQ_REQ = ("lib.Num", "model.Discrete", "model.DiscreteFloat")
TOL = 1e-9
K5 = "K5:highest-id-not-oldest-root"

RULE = ("inputs with ignore_oldest_root=True: msprime tree sequences (2-6 contemporaneous samples, recombination, "
        "so several roots of different ages) and single trees of every shape up to 5 leaves, in their natural "
        "numbering (the oldest root has the highest id) and with the non-sample nodes renumbered at random (the "
        "highest id then usually belongs to another node); random prior grids, both probability spaces, outside "
        "standardisation and cache_inside on/off, num_threads None/1(/2), numpy-typed option values (np.bool_ for "
        "ignore_oldest_root), 20% of the multi-tree inputs with a unary chain above a local root, ~40% with vlib.gen.exotic "
        "decorations (extra flag bits, ALL nodes renumbered so that samples are not listed first, mutation-free sites, "
        "allele strings, populations, mutation times), 15% with tied node times. A case is non-trivial when the oldest root has a non-sample child (its messages "
        "matter); distinct by content hash."
        "About half of the inputs carry 1-3 extra mutations that sit on NO edge (above the root of the local tree; valid tskit input); the references count only mutations on edges, computed from the tables.")
ASSUME = ["the specification side is an independent dense re-implementation of the inside/outside equations "
          "(tools/props/_discrete.py reference_inside_outside) with the ignored node chosen by TIME; it agrees "
          "with the implementation to 1e-15 whenever the ignored node is the same",
          "scipy.stats.poisson values enter model and reference as a table"]


def gen_cases(ctx, n_multi, n_single):
    rng = ctx.rng
    cases = []
    shapes = [s for k in range(3, 6) for s in D.tree_shapes(k)]
    for k in range(n_multi + n_single):
        if k < n_multi:
            d = D.sim_dict(rng, n=rng.randint(2, 6))
            kind = "multi"
        else:
            d = D.shape_to_tables(rng.choice(shapes), rng, L=rng.choice([1.0, 10.0, 1000.0]))
            d = D.canon(D.add_mutations(d, [rng.choice([0, 0, 1, 1, 2, 3]) for _ in d["edges"]], rng))
            kind = "single"
        if kind == "multi" and rng.random() < 0.2:
            d = D.add_unary_chain(d, rng) or d
        renum = rng.random() < 0.5
        if renum:
            d, _ = D.renumber(d, rng)
        cases.append(D.make_case(rng, d, kind=kind + ("/renumbered" if renum else "/natural"),
                                 ignore_oldest_root=True, **D.random_options(rng, ctx.tier == "thorough")))
    return cases


def rel(a, b):
    if a == b:
        return 0.0
    if math.isnan(a) or math.isnan(b):
        return 0.0 if (math.isnan(a) and math.isnan(b)) else math.inf
    return abs(a - b) / max(abs(a), abs(b), 1e-300)


def lin_rows(case, rows):
    if case["space"] == D.LIN:
        return rows
    return [None if r is None else [math.exp(x) for x in r] for r in rows]


def spec_check(ctx, case, res, stats):
    """fit.outside must be what the equations give when exactly the OLDEST root's messages are left out"""
    d = case["ts"]
    n = len(d["nodes_time"])
    old = D.oldest_node(d)
    if old is None:
        return
    _ins, want = D.reference_inside_outside(case, ignored=old, out_std=bool(case.get("out_std", True)))
    got = lin_rows(case, res["outside"])
    worst = 0.0
    for u in range(n):
        if want[u] is None:
            continue
        for x, y in zip(want[u], got[u]):
            worst = max(worst, rel(x, y))
    highest_is_oldest = (old == n - 1)
    if highest_is_oldest:
        stats["natural"] = max(stats.get("natural", 0.0), worst)
    if not worst <= TOL:
        sig = "outside-does-not-ignore-oldest-root" if highest_is_oldest else K5
        ctx.oracle_fail(sig, "fit.outside differs by %.3g from the outside pass without the messages of the oldest "
                        "root (node %d; highest id %d)" % (worst, old, n - 1),
                        {"case": case, "oldest_root": old, "impl": got, "expected": want})
    return worst


def dates(case):
    import tsdate
    ts = D.ts_from_dict(case["ts"])
    new = tsdate.inside_outside(ts, mutation_rate=D.opt(case, "mu", case["mu"]), priors=D.make_priors(case, ts),
                                eps=D.opt(case, "eps", case["eps"]), probability_space=case["space"],
                                ignore_oldest_root=D.opt(case, "ign", True), num_threads=case.get("num_threads"),
                                cache_inside=D.opt(case, "cache", bool(case.get("cache_inside"))),
                                outside_standardize=D.opt(case, "out_std", bool(case.get("out_std", True))),
                                record_provenance=False)
    return [float(x) for x in new.nodes_time]


def renumber_check(ctx, case, stats):
    """public API: renumbering the non-sample nodes must not change the dates"""
    rng = ctx.rng
    d2, m = D.renumber(case["ts"], rng)
    other = dict(case, ts=d2, prior={str(m[int(u)]): r for u, r in case["prior"].items()},
                 nonfixed_order=[m[u] for u in case["nonfixed_order"]])
    try:
        a = dates(case)
        b = dates(other)
    except Exception as e:
        ctx.oracle_fail("exception:" + type(e).__name__, "inside_outside(ignore_oldest_root=True) raised %r" % (e,),
                        {"case": case})
        return
    n = len(a)
    worst = max(rel(a[u], b[m[u]]) for u in range(n))
    natural = (D.oldest_node(case["ts"]) == n - 1) and (D.oldest_node(d2) == n - 1)
    if natural:
        stats["renumber_natural"] = max(stats.get("renumber_natural", 0.0), worst)
    if not worst <= TOL:
        sig = "renumbering-changes-dates" if natural else K5
        ctx.oracle_fail(sig, "dates change by %.3g when non-sample nodes are renumbered" % worst,
                        {"case": case, "transformed": other, "map": {str(k): v for k, v in m.items()}})


def matters(case):
    d = case["ts"]
    old = D.oldest_node(d)
    return old is not None and any(p == old and not d["nodes_flags"][c] for _l, _r, p, c in d["edges"])


def run(ctx, model_ok=True):
    cases = gen_cases(ctx, ctx.n(30, 250), ctx.n(15, 100))
    stats = {}
    res = []
    for c in cases:
        n = len(c["ts"]["nodes_time"])
        nat = D.oldest_node(c["ts"]) == n - 1
        ctx.case(D.summary(c), nontrivial=matters(c),
                 kind=c["space"] + "/" + c["kind"] + ("/highest-id-is-oldest-root" if nat else "/highest-id-is-not-oldest-root"))
        try:
            r = D.run_io_impl(c)
        except Exception as e:
            ctx.oracle_fail("exception:" + type(e).__name__, "outside_pass(ignore_oldest_root=True) raised %r" % (e,),
                            {"case": c})
            res.append(None)
            continue
        res.append(r)
        spec_check(ctx, c, r, stats)
        renumber_check(ctx, c, stats)
    ctx.notes["max_rel_diff_to_spec_when_highest_id_is_oldest_root"] = stats.get("natural")
    ctx.notes["max_rel_change_under_renumbering_keeping_oldest_root_last"] = stats.get("renumber_natural")
    ctx.notes["tolerance"] = TOL
    if model_ok:
        D.io_correspondence(ctx, cases, res, COQ_REQ, label="ignore_oldest_root")


def search(ctx):
    stats = {}
    for c in gen_cases(ctx, ctx.n(200, 800), ctx.n(100, 300)):
        try:
            r = D.run_io_impl(c)
        except Exception:
            continue
        spec_check(ctx, c, r, stats)
        renumber_check(ctx, c, stats)
        if ctx.oracle_fails:
            return


def replay(ctx, data):
    case = data["case"]["case"]
    before = len(ctx.oracle_fails) + len(ctx.known_hits)
    spec_check(ctx, case, D.run_io_impl(case), {})
    renumber_check(ctx, case, {})
    return len(ctx.oracle_fails) + len(ctx.known_hits) == before
