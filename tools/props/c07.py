"""C07 -- rescaling genome coordinates and mutation rate together leaves dates unchanged."""
import numpy as np
from props import _dating as D
from vlib.coqfmt import cZ, cnat, clist

ENV_BY_TIER = {"quick": {"NUMBA_DISABLE_JIT": "1"}, "thorough": {}}
RULE = ("(a) extraction tie: rescaling.count_mutations (mutation->edge map, per-edge counts and spans) vs the reference "
        "semantics of coq/model/Inputs.v evaluated on exact rationals, on msprime inputs with integer coordinates "
        "(recombination, multiple mergers, mutations above roots, historical samples); (b) metamorphic oracle: every "
        "method on (ts, mu) and on (coordinates*c, mu/c) for c in {2, 1/4, 2^20 (bit-identical expected), 3, 7.3, 1e3, 1e-3}; "
        "non-trivial = both runs returned and the input has >= 2 trees or >= 3 mutations")
ASSUME = ["floating-point tolerance of the property: powers of two must be bit-identical; otherwise 1e-4 relative for "
          "variational_gamma (Newton-fit tolerances amplified: measured up to 4.3e-6) and 1e-10 for the discrete-time methods (measured 1.4e-14)"]
CS = [2.0, 0.25, 3.0, 7.3, 1e3, 1e-3, 2.0 ** 20]   # 2^20: chromosome-scale coordinates (> 2^24), still exact


def _exact(c):
    import math
    return math.frexp(c)[0] == 0.5
# variational_gamma: its inner fits (approximate_gamma_kl / _iqr Newton loops) stop at relative tolerances around
# 1e-8, which a rounding-level change of the inputs amplifies: measured up to 4.3e-6 (node_vr) on the unchanged
# tree for inexact factors; exact (power-of-two) factors must be BIT-IDENTICAL, which is the sharp test
TOL = {"variational_gamma": 1e-4, "inside_outside": 1e-10, "maximization": 1e-10}


def extraction_case(rng):
    from vlib import gen
    ts = gen.sim_ts(rng, n=rng.randint(2, 7), L=rng.choice([5, 20, 100]), historical=rng.random() < 0.2)
    return ts


def extraction_impl(ts):
    import tsdate.rescaling as R
    stats, mut_edge = R.count_mutations(ts)
    return [int(x) for x in mut_edge], [(int(round(a)), float(b)) for a, b in stats]


def extraction_model(ctx, tss):
    terms = []
    for ts in tss:
        es = clist([(int(e.left), int(e.right), e.parent, e.child) for e in ts.edges()],
                   lambda e: "(%s, %s, %s, %s)" % (cZ(e[0]), cZ(e[1]), cnat(e[2]), cnat(e[3])))
        pos = ts.sites_position[ts.mutations_site]
        ms = clist([(int(x), int(u)) for x, u in zip(pos, ts.mutations_node)],
                   lambda m: "(%s, %s)" % (cZ(m[0]), cnat(m[1])))
        terms.append("edge_inputs_Q %s %s" % (es, ms))
    res = ctx.coq_eval("Eval vm_compute in %s.\n" % clist(terms), requires=("lib.Num", "model.Inputs"), tag="inputs")
    out = []
    for mes, inp in res[0]:
        me = [(-1 if o is None else o[1]) for o in mes]
        st = [(int(k), q[1] / q[2] if isinstance(q, tuple) else float(q)) for k, q in inp]
        out.append((me, st))
    return out


def metamorphic(ctx, rng):
    from vlib import gen
    method = rng.choice(D.METHODS)
    unphased = method == "variational_gamma" and rng.random() < 0.35
    ts = D.datable_ts(rng, historical=(method == "variational_gamma" and not unphased and rng.random() < 0.2),
                      big=rng.random() < 0.2, ploidy=2 if unphased else 1)
    kw = D.method_options(rng, method, ts)
    if unphased and ts.num_individuals > 0:
        kw["singletons_phased"] = False   # singleton blocks: their spans are coordinate differences too
    unary = False
    if method != "variational_gamma" and rng.random() < 0.35:
        # unary nodes above the top coalescence of a tree (their prior comes from SpansBySamples.second_pass)
        for _try in range(6):
            base = D.datable_ts(rng, historical=False, big=True)
            uts = gen.unary_chain_ts(rng, base) if base.num_trees > 1 else None
            if uts is not None:
                ts, unary = uts, True
                kw["allow_unary"] = True
                break
    missing = False
    if not unary and not unphased and rng.random() < (0.4 if method != "variational_gamma" else 0.15):
        # missing data: samples isolated over part of the genome, so trees differ in their number of sample tips
        # (the conditional-coalescent prior of a node is then a span-weighted mixture over several tip totals)
        mts = gen.detach_sample(rng, ts, k=rng.randint(1, 2))
        if mts is not None and mts.num_mutations > 0:
            ts, missing = mts, True
    r = D.call(method, ts, **kw)
    desc = {"method": method, "opts": D.jsonable_opts(kw), "ts": gen.ts_summary(ts), "unary_chain": unary, "missing_data": missing}
    if r[0] != "ok":
        ctx.case(dict(desc, outcome=r[1]), nontrivial=False, kind="meta/raise")
        return
    a = D.result_arrays(r[1])
    nt = ts.num_trees >= 2 or ts.num_mutations >= 3
    for c in rng.sample(CS, 3):
        kw2 = dict(kw, mutation_rate=kw["mutation_rate"] / c)
        r2 = D.call(method, D.scale_coordinates(ts, c), **kw2)
        replay = {"level": "meta", "ts": gen.ts_tables_dict(ts), "method": method, "opts": D.jsonable_opts(kw), "c": c}
        if r2[0] != "ok":
            ctx.case(dict(desc, c=c, outcome="scaled-run-raised " + r2[1]), nontrivial=False, kind="meta/raise2")
            if _exact(c):  # exact rescaling: the run must be identical, so it cannot raise
                ctx.oracle_fail("scaled-run-raises", "%s returned on ts but raised %s: %s on the input scaled by %g" % (method, r2[1], r2[2], c), replay)
            continue
        d, key = D.max_rel_diff(a, D.result_arrays(r2[1]))
        tol = 0.0 if _exact(c) else TOL[method]
        ctx.case(dict(desc, c=c, max_rel_diff=d), nontrivial=nt, kind="meta/%s/c=%g" % (method, c))
        if d > tol:
            sig = "dates-changed"
            if tol > 0.0 and method == "variational_gamma" and kw.get("rescaling_intervals", 1000) != 0:
                # Knife-edge diagnosis (finding K11): the time-rescaling step picks its changepoints by
                # comparing cumulative mass fractions with k/epochs (searchsorted); an EXACT tie can flip
                # under the last-bit rounding of an inexact scale factor.  That is the case iff the same
                # input is bit-identical under an exact (power-of-two) factor of similar size AND agrees to
                # tolerance once the rescaling step is switched off.  Anything else stays a violation.
                import math
                c2 = 2.0 ** round(math.log2(c))
                ra = D.call(method, D.scale_coordinates(ts, c2), **dict(kw, mutation_rate=kw["mutation_rate"] / c2))
                kw0 = dict(kw, rescaling_intervals=0)
                rb, rc = D.call(method, ts, **kw0), D.call(method, D.scale_coordinates(ts, c), **dict(kw0, mutation_rate=kw["mutation_rate"] / c))
                if ra[0] == "ok" and rb[0] == "ok" and rc[0] == "ok":
                    d_exact = D.max_rel_diff(a, D.result_arrays(ra[1]))[0]
                    d_norescale = D.max_rel_diff(D.result_arrays(rb[1]), D.result_arrays(rc[1]))[0]
                    if d_exact == 0.0 and d_norescale <= tol:
                        sig = "rescaling-changepoint-tie"
            ctx.oracle_fail(sig, "%s c=%g: %s differs by %.3g (tolerance %g)" % (method, c, key, d, tol), replay)


def run(ctx, model_ok=True):
    tss = [extraction_case(ctx.rng) for _ in range(ctx.n(80, 400))]
    if model_ok:
        model = extraction_model(ctx, tss)
        for ts, (me, st) in zip(tss, model):
            ime, ist = extraction_impl(ts)
            ok = ime == me and len(ist) == len(st) and all(a[0] == b[0] and a[1] == b[1] for a, b in zip(ist, st))
            from vlib import gen
            ctx.corr("count_mutations", ok, "impl=%r model=%r" % ((ime, ist), (me, st)),
                     replay={"level": "extract", "ts": gen.ts_tables_dict(ts)})
            ctx.case({"level": "extract", "ts": gen.ts_summary(ts), "mut_edge": ime[:10]},
                     nontrivial=ts.num_mutations > 0 and ts.num_edges > 2, kind="extract")
    for _ in range(ctx.n(40, 400)):
        metamorphic(ctx, ctx.rng)


def search(ctx):
    for _ in range(ctx.n(200, 1000)):
        metamorphic(ctx, ctx.rng)
        if ctx.oracle_fails:
            return


def replay(ctx, data):
    from vlib import gen
    case = data["case"]
    if case.get("level") != "meta":
        return True
    ts = gen.ts_from_dict(case["ts"])
    kw = case["opts"]
    r = D.call(case["method"], ts, **kw)
    r2 = D.call(case["method"], D.scale_coordinates(ts, case["c"]), **dict(kw, mutation_rate=kw["mutation_rate"] / case["c"]))
    if r[0] != "ok" or r2[0] != "ok":
        return r[0] == r2[0]
    d, _ = D.max_rel_diff(D.result_arrays(r[1]), D.result_arrays(r2[1]))
    return d <= (0.0 if _exact(case["c"]) else TOL[case["method"]])
