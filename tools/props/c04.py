"""C04 -- reported posteriors in metadata equal the fit object's posteriors."""
import json
import math
import warnings

import numpy as np

from props import _glue as G
from vlib.coqfmt import cfloat, cbool, clist, copt

ENV_BY_TIER = {"quick": {"NUMBA_DISABLE_JIT": "1"}, "thorough": {"NUMBA_DISABLE_JIT": "1"}}

RULE = ("(a) numpy summation: random double arrays of length 1..300 against the model's pairwise sum; "
        "(b) NodeTimeValues grids (2..40 timepoints, 1..6 rows, linear and logarithmic space, zeros, -inf, huge and "
        "tiny entries, occasionally a negative entry) through standardize / force_probability_space / "
        "to_probabilities / DiscreteTimeMethod.mean_var, bit for bit against the Coq model on doubles; "
        "(c) date(return_fit=True) for the three methods x set_metadata in {None, True} x metadata kinds x inputs with "
        "several mutations per site: every node / mutation mn, vr decoded and compared with fit.node_posteriors() / "
        "fit.mutation_posteriors(). Non-trivial: metadata was written (b: the row is not fixed); distinct by content hash")
ASSUME = ["np.exp is external (its values on the entries of a case are tabulated)", "numpy's np.sum on a contiguous "
          "double array is the pairwise algorithm modelled in Glue.v (checked in (a) on every run)",
          "the JSON / struct('d') round trip of a double is exact (tskit, python json)"]

K9_SIG = "c04:mutation-metadata-rows-permuted-within-site"
SAFE_KINDS = [k for k in G.KINDS if k not in G.CRASH_KINDS and k not in G.LOSSY_KINDS]


def same(a, b):
    a, b = float(a), float(b)
    return (math.isnan(a) and math.isnan(b)) or a == b


def same_list(a, b):
    return len(a) == len(b) and all(same(x, y) for x, y in zip(a, b))


# ----------------------------------------------------------------------------- (a) np.sum
def run_sums(ctx):
    rng = ctx.rng
    arrays = []
    for _ in range(ctx.n(60, 400)):
        n = rng.choice([rng.randint(1, 9), rng.randint(1, 40), rng.randint(100, 300)])
        arrays.append([rng.random() * 10.0 ** rng.randint(-6, 6) * rng.choice([1, 1, -1]) for _ in range(n)])
    body = "Definition cases := %s.\nEval vm_compute in cases.\n" % clist(
        ["(run_np_sum %s)" % clist(a, cfloat) for a in arrays])
    model = ctx.coq_eval(body, requires=("model.Glue",), tag="npsum")[0]
    for a, m in zip(arrays, model):
        got = float(np.sum(np.array(a, dtype=np.float64)))
        ctx.case({"np.sum of": len(a), "first": a[:3]}, nontrivial=len(a) >= 8, kind="np.sum/%s" % (
            "<8" if len(a) < 8 else ("<=128" if len(a) <= 128 else ">128")))
        ctx.corr("np.sum", same(got, m), "np.sum=%r model=%r n=%d" % (got, m, len(a)), replay={"array": a})


# ----------------------------------------------------------------------------- (b) the grid pipeline
def gen_grid(rng):
    import tskit
    num_nodes = rng.randint(2, 7)
    nonfixed = rng.sample(range(num_nodes), rng.randint(1, num_nodes - 1))   # NOT sorted by id
    if rng.random() < 0.3:
        nonfixed.sort()
    k = rng.choice([2, 3, 5, 8, 9, 21, 40])
    tp = sorted(set([0.0] + [round(rng.random() * 10 ** rng.randint(-1, 3), 6) for _ in range(k - 1)]))
    while len(tp) < 2:
        tp.append(tp[-1] + 1.0)
    lg = rng.random() < 0.5
    rows = []
    for _ in nonfixed:
        style = rng.choice(["plain", "plain", "zeros", "tiny", "huge", "spike"])
        r = []
        for j in range(len(tp)):
            x = rng.random()
            if style == "zeros" and rng.random() < 0.5:
                x = 0.0
            elif style == "tiny":
                x *= 1e-300
            elif style == "huge":
                x *= 1e300
            elif style == "spike":
                x = 1.0 if j == len(tp) // 2 else 0.0
            r.append(x)
        if not lg and rng.random() < 0.08:
            r[rng.randrange(len(r))] = -0.5          # trips the assertion of to_probabilities
        if lg:
            with np.errstate(divide="ignore"):
                r = [float(np.log(x)) for x in r]
        rows.append(r)
    node_times = [0.0 if u not in nonfixed else round(rng.random() * 5, 3) for u in range(num_nodes)]
    for u in range(num_nodes):
        if u not in nonfixed and rng.random() < 0.5:
            node_times[u] = round(rng.random() * 3, 3)      # historical sample
    return dict(num_nodes=num_nodes, nonfixed=nonfixed, timepoints=tp, log=lg, rows=rows, node_times=node_times)


def run_impl_grid(c):
    import tskit
    from tsdate import core
    from tsdate.node_time_class import NodeTimeValues, LIN_GRID, LOG_GRID
    ntv = NodeTimeValues(c["num_nodes"], np.array(c["nonfixed"], dtype=np.int32), np.array(c["timepoints"]))
    ntv.grid_data[:] = np.array(c["rows"], dtype=float)
    ntv.probability_space = LOG_GRID if c["log"] else LIN_GRID
    tables = tskit.TableCollection(1.0)
    for t in c["node_times"]:
        tables.nodes.add_row(flags=0, time=t)
    ts = tables.tree_sequence()
    out = {}
    with warnings.catch_warnings():
        warnings.simplefilter("ignore")
        with np.errstate(all="ignore"):
            ntv.standardize()
            out["std"] = ntv.grid_data.copy()
            before = ntv.grid_data.copy()
            ntv.force_probability_space(LIN_GRID)
            out["exp"] = list(zip(before.ravel().tolist(), ntv.grid_data.ravel().tolist())) if c["log"] else []
            try:
                ntv.to_probabilities()
            except AssertionError:
                out["post"] = None
                return out
            out["post"] = ntv.grid_data.copy()
            mn, va = core.DiscreteTimeMethod.mean_var(ts, ntv)
            out["mean"], out["var"] = mn.tolist(), va.tolist()
    return out


def grid_term(c, exp_pairs):
    grid = []
    row_of = dict(zip(c["nonfixed"], c["rows"]))      # grid row k belongs to node nonfixed[k]
    for u in range(c["num_nodes"]):
        grid.append("(Some %s)" % clist(row_of[u], cfloat) if u in row_of else "None")
    seen = {}
    for a, b in exp_pairs:
        seen.setdefault(float(a).hex() if not math.isnan(a) else "nan", (a, b))
    tab = clist(seen.values(), lambda ab: "(%s, %s)" % (cfloat(ab[0]), cfloat(ab[1])))
    return "(run_discrete %s %s %s %s %s)" % (tab, cbool(c["log"]), clist(c["timepoints"], cfloat),
                                              clist(c["node_times"], cfloat), "[" + "; ".join(grid) + "]")


def run_grids(ctx):
    rng = ctx.rng
    cases = [gen_grid(rng) for _ in range(ctx.n(150, 1500))]
    impl = [run_impl_grid(c) for c in cases]
    CH = 150
    model = []
    for i in range(0, len(cases), CH):
        body = "Definition cases := %s.\nEval vm_compute in cases.\n" % clist(
            [grid_term(c, o["exp"]) for c, o in zip(cases[i:i + CH], impl[i:i + CH])])
        model += ctx.coq_eval(body, requires=("model.Glue",), tag="grid")[0]
    for c, o, m in zip(cases, impl, model):
        std_m, post_m, (mean_m, var_m) = m
        ctx.case({"space": "log" if c["log"] else "lin", "timepoints": len(c["timepoints"]), "rows": len(c["rows"]),
                  "row0": c["rows"][0][:6]}, nontrivial=True,
                 kind="grid/%s/%s" % ("log" if c["log"] else "lin", "assert" if o["post"] is None else "ok"))
        # standardize
        by_node = sorted(range(len(c["nonfixed"])), key=lambda k: c["nonfixed"][k])   # grid rows in node-id order
        rows_m = [r[1] for r in std_m if r is not None]
        impl_std = [o["std"].tolist()[k] for k in by_node]
        ok = len(rows_m) == len(impl_std) and all(same_list(a, b) for a, b in zip(impl_std, rows_m))
        ctx.corr("standardize", ok, "impl=%r model=%r" % (o["std"].tolist()[:2], rows_m[:2]), replay=c)
        # to_probabilities
        if o["post"] is None or post_m is None:
            ctx.corr("to_probabilities", o["post"] is None and post_m is None,
                     "assertion: impl %s, model %s" % (o["post"] is None, post_m is None), replay=c)
            continue
        prow_m = [r[1] for r in post_m[1] if r is not None]
        impl_post = [o["post"].tolist()[k] for k in by_node]
        ok = len(prow_m) == len(impl_post) and all(same_list(a, b) for a, b in zip(impl_post, prow_m))
        ctx.corr("to_probabilities", ok, "impl=%r model=%r" % (o["post"].tolist()[:2], prow_m[:2]), replay=c)
        ctx.corr("mean_var", same_list(o["mean"], mean_m) and same_list(o["var"], var_m),
                 "impl=(%r, %r) model=(%r, %r)" % (o["mean"], o["var"], mean_m, var_m), replay=c)
        # the property on the implementation's own numbers
        for u, row in zip(c["nonfixed"], o["post"].tolist()):
            if any(math.isnan(x) for x in row):
                continue
            if min(row) < 0 or abs(sum(row) - 1.0) > 1e-12:
                ctx.oracle_fail("c04:posterior-row-not-a-distribution", "row %r" % (row[:6],), c)
                continue
            # node u's mean / variance are the moments of ITS OWN row
            tp = np.array(c["timepoints"])
            mn = float(np.dot(row, tp))
            vr = float(np.dot(row, (tp - mn) ** 2))
            scale = max(abs(mn), 1e-300)
            if abs(o["mean"][u] - mn) > 1e-9 * scale or abs(o["var"][u] - vr) > 1e-8 * max(vr, scale * scale * 1e-6):
                ctx.oracle_fail("c04:mean-var-not-the-moments-of-the-node's-row",
                                "node %d: mean_var gives (%r, %r), its row has (%r, %r)" % (u, o["mean"][u], o["var"][u], mn, vr), c)
        for u in range(c["num_nodes"]):
            if u not in c["nonfixed"] and not (o["mean"][u] == c["node_times"][u] and o["var"][u] == 0.0):
                ctx.oracle_fail("c04:fixed-node-not-exact", "node %d: %r %r" % (u, o["mean"][u], o["var"][u]), c)


# ----------------------------------------------------------------------------- (c) date()
def decode_rows(table):
    schema = table.metadata_schema
    return [schema.decode_row(b) for b in G.table_rows(table)]


def check_mutation_rows(ctx, its, ots, want, payload, what):
    """want[i] = (mn, vr) expected for INPUT mutation row i; output rows may be permuted within a
    site by tskit's re-sorting (K9)"""
    got = [(d.get("mn"), d.get("vr")) for d in decode_rows(ots.tables.mutations)]
    if len(got) != len(want):
        ctx.oracle_fail("c04:mutation-count", "", payload)
        return
    bad = [i for i in range(len(want)) if not (same(got[i][0], want[i][0]) and same(got[i][1], want[i][1]))]
    if not bad:
        return
    key = lambda p: tuple("nan" if math.isnan(x) else x for x in map(float, p))   # noqa: E731
    perm_only = list(its.mutations_site) == list(ots.mutations_site)
    if perm_only:
        for s in its.sites():
            ids = [m.id for m in s.mutations]
            if sorted(key(want[i]) for i in ids) != sorted(key(got[i]) for i in ids):
                perm_only = False
            elif any(i in bad for i in ids) and len(ids) < 2:
                perm_only = False
    if perm_only:
        ctx.oracle_fail(K9_SIG, "%s: rows %r carry the mn/vr of another mutation of the same site" % (what, bad[:6]), payload)
    else:
        i = bad[0]
        ctx.oracle_fail("c04:mutation-metadata-mismatch", "%s: row %d metadata (%r, %r), fit says (%r, %r)" % (
            what, i, got[i][0], got[i][1], want[i][0], want[i][1]), payload)


def run_date(ctx):
    import tsdate
    import _tskit
    rng = ctx.rng
    total = raised = 0
    for _ in range(ctx.n(220, 2500)):
        total += 1
        method = rng.choice(["variational_gamma", "variational_gamma", "inside_outside", "inside_outside", "maximization"])
        discrete = method != "variational_gamma"
        multi = rng.random() < 0.5
        ts = G.maybe_permuted(rng, G.maybe_root_mutations(rng, G.pooled_ts(
            rng, size=ctx.n(10, 40), multi=multi, extras=rng.random() < 0.3, min_muts=2, migrations=False), 0.35), 0.6)
        tables = ts.dump_tables()
        kn, km = rng.choice(SAFE_KINDS), rng.choice(SAFE_KINDS)
        G.decorate(tables.nodes, kn, rng)
        G.decorate(tables.mutations, km, rng)
        its = tables.tree_sequence()
        sm = rng.choice([None, True])
        kw = dict(mutation_rate=rng.choice([0.05, 0.5, 5.0]), method=method, set_metadata=sm, return_fit=True)
        if rng.random() < 0.3:
            kw["constr_iterations"] = rng.choice([0, 5])
        if rng.random() < 0.3:
            kw["min_branch_length"] = rng.choice([1e-8, 0.05])
        if discrete:
            kw["population_size"] = rng.choice([1.0, 10.0])
            if rng.random() < 0.5:
                kw["probability_space"] = rng.choice(["linear", "logarithmic"])
            if method == "inside_outside" and rng.random() < 0.3:
                kw["outside_standardize"] = rng.choice([True, False])
        else:
            kw.update(max_iterations=rng.choice([1, 3]), rescaling_intervals=rng.choice([0, 0, 2]))
        desc = {"level": "date", "kwargs": {k: repr(v) for k, v in kw.items()}, "node_kind": kn, "mutation_kind": km,
                "nodes": its.num_nodes, "mutations": its.num_mutations,
                "multi_mutation_sites": sum(len(s.mutations) > 1 for s in its.sites())}
        payload = dict(desc, replay={"fn": "date", "tables": G.tc_to_json(its.dump_tables()), "kw": G.plain(kw)})
        want_lik = rng.random() < 0.3
        if want_lik:
            kw["return_likelihood"] = True
            payload["replay"]["kw"] = G.plain(kw)
        with G.LogTap() as tap:
            try:
                with warnings.catch_warnings():
                    warnings.simplefilter("ignore")
                    ret = tsdate.date(its, **kw)
            except Exception as e:   # noqa: BLE001 - raising is C35's business
                ctx.tally("date-raised(C35):%s" % type(e).__name__)
                raised += 1
                continue
        # parse_result: (ts, fit) or (ts, fit, likelihood), in this order
        import tskit
        ok_shape = isinstance(ret, tuple) and len(ret) == (3 if want_lik else 2) and \
            isinstance(ret[0], tskit.TreeSequence) and hasattr(ret[1], "node_posteriors") and \
            (not want_lik or ret[2] is None or isinstance(ret[2], (float, np.floating)))
        if not ok_shape:
            ctx.oracle_fail("c04:parse-result-shape", "date(return_fit=True, return_likelihood=%r) returned %r" % (
                want_lik, [type(x).__name__ for x in ret] if isinstance(ret, tuple) else type(ret).__name__), payload)
            continue
        ots, fit = ret[0], ret[1]
        check_dated(ctx, its, ots, fit, method, tap.events, payload, desc)
    if total >= 20 and raised > total // 2:
        ctx.tie_fail("correspondence", "date() raises on most inputs", "%d of %d runs raised: %r" % (raised, total, ctx.dist))


def check_dated(ctx, its, ots, fit, method, events, payload, desc=None):
    """the statement of C04 on one date(return_fit=True) result"""
    warned = {name for code, name in events if code == 0}
    nodes_written = "NodeTable" not in warned and method != "maximization"
    muts_written = "MutationTable" not in warned and method == "variational_gamma"
    if desc is not None:
        ctx.case(desc, nontrivial=nodes_written, kind="date/%s/%s" % (method, "written" if nodes_written else "not-written"))
    t0, t1 = its.tables, ots.tables
    if method == "maximization":
        if t0.nodes.metadata_schema != t1.nodes.metadata_schema or G.table_rows(t0.nodes) != G.table_rows(t1.nodes):
            ctx.oracle_fail("c04:maximization-wrote-node-metadata", "", payload)
        if t0.mutations.metadata_schema != t1.mutations.metadata_schema or \
                sorted(G.table_rows(t0.mutations)) != sorted(G.table_rows(t1.mutations)):
            ctx.oracle_fail("c04:maximization-wrote-mutation-metadata", "", payload)
        try:
            fit.node_posteriors()
            ctx.oracle_fail("c04:maximization-reports-posteriors", "", payload)
        except ValueError:
            pass
        return
    if nodes_written:
        md = decode_rows(t1.nodes)
        if method == "variational_gamma":
            post = fit.node_posteriors()
            for i, d in enumerate(md):
                if not (same(d["mn"], post["mean"][i]) and same(d["vr"], post["variance"][i])):
                    ctx.oracle_fail("c04:node-metadata-mismatch", "node %d: metadata (%r, %r), node_posteriors() (%r, %r)" % (
                        i, d["mn"], d["vr"], post["mean"][i], post["variance"][i]), payload)
                    break
        else:
            post = fit.node_posteriors()
            tp = np.array([float(x) for x in post.dtype.names])
            grid = post.view(np.float64).reshape(its.num_nodes, len(tp))
            samples = set(its.samples())
            for i, d in enumerate(md):
                row = grid[i]
                if i in samples:
                    if not (np.all(np.isnan(row)) and d["mn"] == its.nodes_time[i] and d["vr"] == 0):
                        ctx.oracle_fail("c04:sample-node-not-exact", "node %d: mn=%r vr=%r time=%r" % (
                            i, d["mn"], d["vr"], its.nodes_time[i]), payload)
                        break
                    continue
                if np.any(np.isnan(row)) or row.min() < 0 or abs(row.sum() - 1.0) > 1e-12:
                    ctx.oracle_fail("c04:posterior-row-not-a-distribution", "node %d: min %r sum %r" % (
                        i, row.min(), row.sum()), payload)
                    break
                mn = float(np.dot(row, tp))
                vr = float(np.dot(row, (tp - mn) ** 2))
                scale = max(abs(mn), 1e-300)
                if abs(d["mn"] - mn) > 1e-12 * scale or abs(d["vr"] - vr) > 1e-10 * max(vr, scale * scale * 1e-6):
                    ctx.oracle_fail("c04:node-metadata-not-row-moments", "node %d: metadata (%r, %r), row moments (%r, %r)" % (
                        i, d["mn"], d["vr"], mn, vr), payload)
                    break
    if muts_written:
        post = fit.mutation_posteriors()
        check_mutation_rows(ctx, its, ots, list(zip(post["mean"].tolist(), post["variance"].tolist())), payload,
                            "mutation_posteriors()")


def run(ctx, model_ok=True):
    G.quiet_logging()
    if model_ok:
        run_sums(ctx)
        run_grids(ctx)
    run_date(ctx)


def search(ctx):
    run_date(ctx)


def replay(ctx, data):
    """re-run one saved case; True iff the statement of C04 holds on it"""
    import tsdate
    G.quiet_logging()
    case = data.get("case") or {}
    r = case.get("replay")
    if r and r.get("fn") == "date":
        its = G.tc_from_json(r["tables"]).tree_sequence()
        kw = G.unplain(r["kw"])
        with G.LogTap() as tap:
            with warnings.catch_warnings():
                warnings.simplefilter("ignore")
                ret = tsdate.date(its, **kw)
        ots, fit = ret[0], ret[1]
        check_dated(ctx, its, ots, fit, kw["method"], tap.events, case)
    elif "rows" in case and "timepoints" in case:
        o = run_impl_grid(case)
        if o["post"] is not None:
            for row in o["post"].tolist():
                if not any(math.isnan(x) for x in row) and (min(row) < 0 or abs(sum(row) - 1.0) > 1e-12):
                    ctx.oracle_fail("c04:posterior-row-not-a-distribution", "row %r" % (row[:6],), case)
            for u in range(case["num_nodes"]):
                if u not in case["nonfixed"] and not (o["mean"][u] == case["node_times"][u] and o["var"][u] == 0.0):
                    ctx.oracle_fail("c04:fixed-node-not-exact", "node %d" % u, case)
    else:
        print(json.dumps(case, indent=1)[:3000])
        return False
    return G.replay_verdict(ctx)
