"""C13 -- maximization picks ordered grid timepoints by the documented rule."""
import numpy as np
from props import _discrete as D

ENV_BY_TIER = {"quick": {"NUMBA_DISABLE_JIT": "1"}, "thorough": {}}
ENV = {"XDG_CACHE_HOME": "/verif/.work/disc/cache"}
COQ_REQ = ("lib.Num", "model.Discrete", "model.DiscreteFloat")

RULE = ("single trees: every rooted shape with 2-5 leaves (polytomies included) x random per-edge mutation "
        "counts 0-3 x prior grids (2-6 timepoints, random positive rows, often 0 at time 0); multi-tree: msprime "
        "(2-6 contemporaneous samples, recombination, multiple mergers) with non-sample nodes renumbered at random, "
        "and re-timed (valid, order-changing), so children have several parents with different chosen timepoints and the first "
        "edge of a group is often not the one with the smallest parent index; 20% with a chain of unary nodes above a local "
        "root; about 40% of all inputs with valid-but-unusual decorations (vlib.gen.exotic: extra flag bits, ALL nodes "
        "renumbered so that samples are not listed first, mutation-free sites, allele strings, populations, mutation "
        "times), 15% with exactly tied node times; cache_inside on/off, num_threads None/1(/2), numpy-typed option "
        "values; thorough: 12 larger inputs (12-25 samples, oracle only); a 'heavy mutation load' family (24 quick / 80 thorough, "
        "correspondence and oracle): hand-built 2-4 tree inputs in which one node has a different parent on every "
        "interval, and msprime inputs, with 50-300 mutations on every parent edge of the multi-parent nodes and none "
        "below them, so each edge's Poisson vector is 1e-100..1e-240; the rule is always re-evaluated in log space "
        "(log inside + scipy logpmf); in linear space a node is judged only if the winning score and every edge's "
        "largest likelihood exceed 1e-250 (otherwise the unchanged algorithm itself underflows: counted, not judged); both probability spaces, eps in "
        "{1e-8,1e-6,1e-3,0.1} or (30%) {0.1,0.3,1,3} x the median grid spacing; a case is non-trivial when some node has >= 2 distinct parents or the chosen index "
        "differs from argmax(inside); distinct by content hash."
        "About half of the inputs carry 1-3 extra mutations that sit on NO edge (above the root of the local tree; valid tskit input); the references count only mutations on edges, computed from the tables.")
ASSUME = ["scipy.stats.poisson.pmf/logpmf values enter the model as a lookup table (not modelled)",
          "the edge order produced by edges_by_child_then_parent_desc is taken from the implementation and "
          "checked against the theorem's hypothesis (outside_orderb) on every input",
          "fit.inside is taken from the implementation (its correctness is C10/C12)"]


def gen_cases(ctx, n_single, n_multi):
    rng = ctx.rng
    cases = []
    shapes = [s for k in range(2, 6) for s in D.tree_shapes(k)]
    for i in range(n_single):
        shape = shapes[i % len(shapes)] if i < len(shapes) else rng.choice(shapes)
        d = D.shape_to_tables(shape, rng, L=rng.choice([1.0, 10.0, 1000.0]))
        d = D.add_mutations(d, [rng.choice([0, 0, 1, 1, 2, 3]) for _ in d["edges"]], rng)
        d = D.canon(d)
        if rng.random() < 0.5:
            d, _ = D.renumber(d, rng)
        cases.append(D.make_case(rng, d, kind="single", **D.random_options(rng, ctx.tier == "thorough")))
    for _ in range(n_multi):
        d = D.sim_dict(rng, n=rng.randint(2, 7))
        if rng.random() < 0.7:
            d, _ = D.renumber(d, rng)
        if rng.random() < 0.6:
            # input times in an order unrelated to the timepoints that will be chosen, so that the
            # first edge of a child's group (youngest parent by INPUT time) need not be the minimum
            d = D.retime(d, rng, "free") or d
        if rng.random() < 0.2:
            d = D.add_unary_chain(d, rng) or d          # unary nodes above a local root
        cases.append(D.make_case(rng, d, kind="multi", **D.random_options(rng, ctx.tier == "thorough")))
    # heavy mutation load on multi-parent nodes: each parent edge's Poisson vector is tiny (1e-100 .. 1e-240)
    # although nothing in the unchanged algorithm underflows (it divides every vector by its own maximum)
    for _ in range(ctx.n(24, 80)):
        if rng.random() < 0.5:
            d = D.multiparent_family(rng)
        else:
            d = D.sim_dict(rng, n=rng.randint(3, 6))
            d = dict(d, sites=[], mutations=[])
            for key in ("site_anc", "mut_der", "mut_time"):
                d.pop(key, None)
            d = D.canon(d)
            if rng.random() < 0.6:
                d, _ = D.renumber(d, rng)
        rate = rng.choice([0.5, 1.0, 3.0, 10.0])           # expected mutations per unit span over the whole grid
        # pmf(k; rate) stays above 1e-250 up to about k = 150 (rate 1) .. 230 (rate 10); a fifth of the cases go beyond
        cap = {0.5: 140, 1.0: 150, 3.0: 185, 10.0: 230}[rate]
        counts, nmulti = D.heavy_parent_counts(rng, d, 50, 300 if rng.random() < 0.2 else cap)
        if nmulti == 0:
            continue
        d = D.canon(D.add_mutations(d, counts, rng))
        grid = D.random_grid(rng)
        c = D.make_case(rng, d, grid=grid, mu=rate / grid[-1], kind="heavy", offedge=0, exotic=False, ties=False,
                        **D.random_options(rng, ctx.tier == "thorough"))
        cases.append(c)
    if ctx.tier == "thorough":
        for _ in range(12):       # a few larger inputs (oracle only; logarithmic space cannot underflow)
            d = D.sim_dict(rng, n=rng.randint(12, 25), big=True)
            d, _ = D.renumber(d, rng)
            cases.append(D.make_case(rng, d, kind="big", space=D.LOG, grid=D.random_grid(rng, gmax=6),
                                     **D.random_options(rng, True)))
    return cases


def run_impl(case):
    """public API, as a user would call it; returns (fit, chosen grid indices)"""
    import tsdate
    ts = D.ts_from_dict(case["ts"])
    pr = D.make_priors(case, ts)
    _new, fit = tsdate.maximization(ts, mutation_rate=D.opt(case, "mu", case["mu"]), priors=pr,
                                    eps=D.opt(case, "eps", case["eps"]), probability_space=case["space"],
                                    num_threads=case.get("num_threads"),
                                    cache_inside=D.opt(case, "cache", bool(case.get("cache_inside"))),
                                    return_fit=True, record_provenance=False)
    return ts, fit


def lin_in_premise(case):
    """linear-space case on which the implementation raised: is the input inside the premise, i.e. does the
    LOGARITHMIC run succeed with every finite inside value and every edge's largest likelihood above 1e-250?
    The per-node denominators (log of the largest unstandardised product of prior and child messages) must be
    representable too.  (otherwise the unchanged linear algorithm underflows in the inside pass: outside the
    property's premise)"""
    import math
    c = dict(case, space=D.LOG)
    try:
        _ts, fit = run_impl(c)
    except Exception:
        return False
    n = len(case["ts"]["nodes_time"])
    for row in D.inside_rows(fit, n):
        if row is not None and any((not math.isinf(x)) and x <= D.LOG_LO for x in row):
            return False
    # the unstandardised products of the inside pass (their maxima are the denominators)
    for x in fit.denominator:
        if not (math.isnan(x) or math.isinf(x)) and x <= D.LOG_LO:
            return False
    for rows in D.pmf_table(c):
        best = max(max(r) for r in rows[1:]) if len(rows) > 1 else 0.0
        if best <= D.LOG_LO:
            return False
    return True


def check_case(ctx, case, fit, tbl):
    """the property on the implementation's output"""
    n = len(case["ts"]["nodes_time"])
    ins = D.inside_rows(fit, n)
    idx = D.grid_index(case["grid"], fit.posterior_mean)
    fixed = [bool(f) for f in case["ts"]["nodes_flags"]]
    ok = True
    for u in range(n):
        if not fixed[u] and idx[u] is None:
            ctx.oracle_fail("off-grid", "node %d gets time %r which is not a timepoint" % (u, fit.posterior_mean[u]),
                            {"case": case})
            ok = False
    if ok:
        info = {}
        bad = D.rule_check(case, ins, idx, tbl, info=info, lo=D.LOG_LO)
        if info.get("outside_premise"):
            # linear space: the unchanged algorithm's own quantities leave the double range at these nodes
            ctx.tally("nodes-outside-premise(linear-underflow)", info["outside_premise"])
        if bad:
            ctx.oracle_fail("rule", "documented rule broken: %r" % (bad[:3],),
                            {"case": case, "idx": idx, "inside": ins})
            ok = False
    return ins, idx, ok


def nontrivial(case, ins, idx, order):
    d = case["ts"]
    pars = {}
    for _l, _r, p, c in d["edges"]:
        pars.setdefault(c, set()).add(p)
    multi = any(len(v) >= 2 for c, v in pars.items() if not d["nodes_flags"][c])
    groups = {}
    for _e, p, c in order:
        groups.setdefault(c, []).append(p)
    fnm = any(idx[ps[0]] is not None and None not in [idx[p] for p in ps] and idx[ps[0]] > min(idx[p] for p in ps)
              for c, ps in groups.items() if not d["nodes_flags"][c])
    if fnm:
        return True, "multi-parent/first-edge-not-youngest-index"
    moved = False
    for u, row in enumerate(ins):
        if row is not None and idx[u] is not None:
            if idx[u] != int(np.argmax(row)):
                moved = True
    return multi or moved, ("multi-parent" if multi else "single-parent") + ("/moved" if moved else "/argmax")


def run(ctx, model_ok=True):
    cases = gen_cases(ctx, ctx.n(60, 300), ctx.n(60, 300))
    body = []
    expect = []
    for k, case in enumerate(cases):
        try:
            ts, fit = run_impl(case)
        except Exception as e:  # valid input: every non-sample node must get a timepoint
            ctx.tally("impl-exception:" + type(e).__name__)
            if case["space"] == D.LIN and not lin_in_premise(case):
                ctx.tally("outside-premise(linear inside pass underflows)")
                continue
            ctx.oracle_fail("exception:" + type(e).__name__, "maximization raised %r on a valid input" % (e,),
                            {"case": case})
            continue
        tbl = D.pmf_table(case)
        ins, idx, ok = check_case(ctx, case, fit, tbl)
        order = D.max_edge_order(fit)
        nt, kind = nontrivial(case, ins, idx, order)
        s = D.summary(case)
        s["idx"] = idx
        ctx.case(s, nontrivial=nt, kind=case["space"] + "/" + case["kind"] + "/" + kind)
        if model_ok and case["kind"] != "big":
            name = "c%d" % k
            body.append(D.coq_common(case, name, tbl) + D.coq_max_term(case, name, order, ins))
            expect.append((name, case, idx))
    if model_ok and expect:
        for lo in range(0, len(expect), 150):
            chunk = expect[lo:lo + 150]
            names = set(n for n, _c, _i in chunk)
            text = "".join(b for b, (n, _c, _i) in zip(body, expect) if n in names)
            text += "Eval vm_compute in [%s].\n" % "; ".join("r_" + n for n, _c, _i in chunk)
            res = ctx.coq_eval(D.PRELUDE + text, requires=COQ_REQ, tag="max")[0]
            for (name, case, idx), (mx, order_ok) in zip(chunk, res):
                got = None if mx is None else list(mx[1])
                ctx.corr("outside_maximization", got == idx, "impl=%r model=%r" % (idx, got),
                         replay={"case": case, "impl": idx, "model": got})
                if not order_ok:
                    ctx.tie_fail("correspondence", "outside_order",
                                 "edges_by_child_then_parent_desc does not give parents before children",
                                 replay={"case": case})


def search(ctx):
    for case in gen_cases(ctx, ctx.n(300, 1500), ctx.n(300, 1500)):
        try:
            _ts, fit = run_impl(case)
        except Exception as e:
            if case["space"] == D.LIN and not lin_in_premise(case):
                continue
            ctx.oracle_fail("exception:" + type(e).__name__, "maximization raised %r on a valid input" % (e,),
                            {"case": case})
            return
        check_case(ctx, case, fit, D.pmf_table(case))
        if ctx.oracle_fails:
            return


def replay(ctx, data):
    case = data["case"]["case"]
    try:
        _ts, fit = run_impl(case)
    except Exception:
        return False
    before = len(ctx.oracle_fails)
    check_case(ctx, case, fit, D.pmf_table(case))
    return len(ctx.oracle_fails) == before
