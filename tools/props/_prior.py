"""Shared by C14 / C16 / C15: references, implementation runners and Coq-model runners
for the coalescent prior family (tsdate/prior.py)."""
import math
from fractions import Fraction as F
from math import comb

from vlib.coqfmt import cfloat, cnat, clist, cpair

REQ = ("lib.Num", "model.Prior", "model.PriorFloat")


# ------------------------------------------------------------------ exact references
def hypo_moments(n):
    """m[a], v[a] (a = 1..n): mean / variance of the time from n lineages down to a"""
    m = [None] * (n + 1)
    v = [None] * (n + 1)
    sm = F(0)
    sv = F(0)
    for a in range(n, 0, -1):
        m[a] = sm
        v[a] = sv
        r = F(2, a * (a - 1)) if a > 1 else F(0)
        sm += r
        sv += r * r
    return m, v


def ref_moments(n):
    """exact (mean[k], var[k]) for k = 0..n from the closed-form level weights
    w(a,k,n) = a(a-1) C(n-a-1,k-2) / (2 C(n,k+1)) (Coq: PriorMarg.W; tied to the Kingman
    chain for n <= 24 by C14_kingman_bounded and re-tied for n <= 10 on every run by
    kingman_py below); entries 0 and 1 are 0"""
    m, v = hypo_moments(n)
    means = [F(0), F(0)]
    out = [F(0), F(0)]
    for k in range(2, n):
        den = 2 * comb(n, k + 1)
        e1 = F(0)
        e2 = F(0)
        c = comb(n - 3, k - 2)  # C(n-a-1, k-2) at a = 2
        for a in range(2, n - k + 2):
            w = F(a * (a - 1) * c, den)
            e1 += w * m[a]
            e2 += w * (v[a] + m[a] * m[a])
            # C(m-1, j) = C(m, j) (m-j)/m  with m = n-a-1, j = k-2
            mm = n - a - 1
            if mm > 0:
                c = c * (mm - (k - 2)) // mm
            else:
                c = 0
        means.append(e1)
        out.append(e2 - e1 * e1)
    means.append(m[1])
    out.append(v[1])
    return means, out


def ref_moments_big(n, ks):
    """closed-form reference for a few k at large n: the level weights are exact integers
    ratios (a(a-1) C(n-a-1,k-2) over 2 C(n,k+1)), the hypoexponential moments and the sums
    are carried in 80-digit arithmetic (exact rationals would need 1000-digit denominators).
    Returns {k: (mean, var)} as mpmath numbers."""
    import mpmath
    with mpmath.workdps(80):
        m = [None] * (n + 1)
        v = [None] * (n + 1)
        sm = mpmath.mpf(0)
        sv = mpmath.mpf(0)
        for a in range(n, 0, -1):
            m[a] = sm
            v[a] = sv
            if a > 1:
                r = mpmath.mpf(2) / (a * (a - 1))
                sm = sm + r
                sv = sv + r * r
        out = {}
        for k in ks:
            if k == n:
                out[k] = (m[1], v[1])
                continue
            den = mpmath.mpf(2 * comb(n, k + 1))
            c = comb(n - 3, k - 2)
            e1 = mpmath.mpf(0)
            e2 = mpmath.mpf(0)
            for a in range(2, n - k + 2):
                w = mpmath.mpf(a * (a - 1) * c) / den
                e1 += w * m[a]
                e2 += w * (v[a] + m[a] * m[a])
                mm = n - a - 1
                c = c * (mm - (k - 2)) // mm if mm > 0 else 0
            out[k] = (e1, e2 - e1 * e1)
        return out


def kingman_py(n):
    """independent reference: explicit Kingman jump chain on block-size multisets (as
    coq/model/Kingman.v), node-averaged mean and variance per k; exact rationals"""
    from collections import defaultdict
    m, v = hypo_moments(n)
    dist = {tuple([1] * n): 1}
    created = {}  # level a -> {k: count}
    for b in range(n, 1, -1):
        nxt = defaultdict(int)
        cr = defaultdict(int)
        for s, cnt in dist.items():
            for i in range(b):
                for j in range(i + 1, b):
                    new = s[i] + s[j]
                    rest = list(s[:i] + s[i + 1:j] + s[j + 1:])
                    rest.append(new)
                    rest.sort()
                    nxt[tuple(rest)] += cnt
                    cr[new] += cnt
        tot = sum(cr.values())
        created[b - 1] = {k: F(c, tot) for k, c in cr.items()}
        dist = nxt
    res = {}
    for k in range(2, n + 1):
        tot = sum(created[a].get(k, 0) for a in created)
        e1 = sum(created[a].get(k, 0) * m[a] for a in created) / tot
        e2 = sum(created[a].get(k, 0) * (v[a] + m[a] ** 2) for a in created) / tot
        res[k] = (e1, e2 - e1 * e1)
    return res


def relerr(x, exact):
    """|x - exact| / |exact| with exact a Fraction (x a float); inf for nan"""
    if x != x or math.isinf(x):
        return float("inf")
    if exact == 0:
        return abs(x)
    return float(abs(F(x) - exact) / abs(exact))


def close(a, b, rel, absol=0.0):
    if a != a or b != b:
        return (a != a) and (b != b)
    if math.isinf(a) or math.isinf(b):
        return a == b
    return abs(a - b) <= absol + rel * max(abs(a), abs(b))


# ------------------------------------------------------------------ implementation
def impl_ccv(n):
    import tsdate.prior as P
    import numpy as np
    with np.errstate(divide="ignore", invalid="ignore"):
        return [float(x) for x in P.conditional_coalescent_variance(n)]


def impl_rows(n, distr):
    """rows of ConditionalCoalescentTimes(None, distr)[n] as lists (alpha, beta, mean, var)"""
    import tsdate.prior as P
    import numpy as np
    cct = P.ConditionalCoalescentTimes(None, distr)
    with np.errstate(divide="ignore", invalid="ignore"):
        cct.add(n)
    return [[float(x) for x in row] for row in cct[n]]


def impl_tau_var_mrca(n):
    import tsdate.prior as P
    return float(P.ConditionalCoalescentTimes.tau_var_mrca(n))


# ------------------------------------------------------------------ Coq model
def model_c14(ctx, ns, row_inputs):
    """evaluate the model on binary64 inside Coq.
    ns: list of n.  row_inputs: list of (mean, var) float pairs.
    returns (ccv lists, tau_expect lists (k = 2..n), tau_var_mrca, gamma pairs, lognorm pairs)"""
    body = "Definition ns := %s.\n" % clist(ns, cnat)
    body += "Definition mv := %s.\n" % clist(row_inputs, lambda p: cpair(cfloat(p[0]), cfloat(p[1])))
    body += "Eval vm_compute in map (fun n => ccv FNum (LinDom FNum) n) ns.\n"
    body += "Eval vm_compute in map (fun n => map (fun k => tau_expect FNum k n) (seq 2 (n - 1))) ns.\n"
    body += "Eval vm_compute in map (fun n => tau_var_mrca FNum n) ns.\n"
    body += "Eval vm_compute in map (fun p : float * float => gamma_approx FNum (fst p) (snd p)) mv.\n"
    body += "Eval vm_compute in map (fun p : float * float => lognorm_approx FNum fln (fst p) (snd p)) mv.\n"
    res = ctx.coq_eval(body, requires=REQ, tag="c14f", timeout=900)
    ccvs = []
    for r in res[0]:
        ccvs.append(None if r is None else [float(x) for x in r[1]])
    taus = [[float(x) for x in l] for l in res[1]]
    mrca = [float(x) for x in res[2]]
    gam = [(float(a), float(b)) for a, b in res[3]]
    logn = [(float(a), float(b)) for a, b in res[4]]
    return ccvs, taus, mrca, gam, logn


def _q(x):
    """(numerator, denominator) pair printed by Coq -> Fraction"""
    return F(int(x[0]), int(x[1]))


QPAIR = "(fun q : Q => (Qnum q, Zpos (Qden q)))"


def model_c14_exact(ctx, ns):
    """the model on exact rationals inside Coq: ccv and tau_expect (printed as numerator /
    denominator pairs: Coq prints some rationals in decimal notation)"""
    body = "Definition ns := %s.\n" % clist(ns, cnat)
    body += ("Eval vm_compute in map (fun n => match ccv QNum (LinDom QNum) n with Some l => Some (map %s l) "
             "| None => None end) ns.\n" % QPAIR)
    body += "Eval vm_compute in map (fun n => map (fun k => %s (tau_expect QNum k n)) (seq 2 (n - 1))) ns.\n" % QPAIR
    res = ctx.coq_eval(body, requires=REQ, tag="c14q", timeout=900)
    ccvs = [None if r is None else [_q(x) for x in r[1]] for r in res[0]]
    taus = [[_q(x) for x in l] for l in res[1]]
    return ccvs, taus
