"""C01 -- dated output is a valid tree sequence with enforced branch lengths."""
import math
from props import _constrain as K
from props import _dating as D

ENV_BY_TIER = {"quick": {"NUMBA_DISABLE_JIT": "1"}, "thorough": {}}
RULE = ("(a) kernel: _constrain_ages vs the Gallina model on binary64, bit for bit, on msprime DAGs x arbitrary time "
        "vectors (1e-12..1e12) x eps x iterations; (b) pipeline: date()/named methods on small msprime inputs "
        "(Kingman and multiple-merger, historical/internal samples, 1-40 trees) x 3 methods x option grid x "
        "mutation rates 1e-1..1e-13 (node times up to ~1e12); non-trivial = the call returned a tree sequence")
ASSUME = ["tskit validates tables in tables.tree_sequence(); compute_mutation_times is tskit's (clause c is checked on outputs, not proved)",
          "children_first of tskit's edge order (checked per input)"]


def check_output(ts_in, out, eps):
    """-> None or (sig, detail)"""
    import tskit
    import numpy as np
    if not isinstance(out, tskit.TreeSequence):
        return ("not-a-treesequence", repr(type(out)))
    try:
        out.tables.tree_sequence()
    except Exception as e:  # noqa
        return ("invalid-tables", "%s: %s" % (type(e).__name__, e))
    t = out.nodes_time
    for e in out.edges():
        if not (t[e.parent] > t[e.child]):
            return ("parent-not-older", "edge %d: parent %d time %r, child %d time %r" % (e.id, e.parent, t[e.parent], e.child, t[e.child]))
        if not (t[e.parent] >= t[e.child] + eps):
            return ("branch-shorter-than-eps", "edge %d: %r < %r + %r" % (e.id, t[e.parent], t[e.child], eps))
    for tree in out.trees():
        for site in tree.sites():
            for m in site.mutations:
                mt = m.time
                if math.isnan(mt):
                    return ("mutation-time-nan", "mutation %d" % m.id)
                lo = t[m.node]
                p = tree.parent(m.node)
                if mt < lo:
                    return ("mutation-below-node", "mutation %d time %r < node %d time %r" % (m.id, mt, m.node, lo))
                if p != tskit.NULL and mt > t[p]:
                    return ("mutation-above-parent", "mutation %d time %r > parent %d time %r" % (m.id, mt, p, t[p]))
    return None


def pipeline_case(rng):
    method = rng.choice(D.METHODS)
    unphased = method == "variational_gamma" and rng.random() < 0.25
    if method == "variational_gamma":
        ts = D.datable_ts(rng, historical=rng.random() < 0.3 and not unphased,
                          internal=rng.random() < 0.2 and not unphased, big=rng.random() < 0.2,
                          ploidy=2 if unphased else 1)
    else:  # the discrete-time methods accept contemporaneous, simplified inputs only
        ts = D.datable_ts(rng, historical=rng.random() < 0.05, internal=False, big=rng.random() < 0.2)
    mu = 10.0 ** rng.choice([-1, -2, -3, -5, -8, -11, -13])
    kw = D.method_options(rng, method, ts, mu=mu)
    if method == "variational_gamma":
        if rng.random() < 0.5:
            kw["rescaling_intervals"] = rng.choice([0, 1, 2, 5])
        if unphased:
            kw["singletons_phased"] = False
    else:
        kw["population_size"] = rng.choice([1.0, 100.0, 1e4, 1e8, 1e11])
    use_date = rng.random() < 0.3
    return ts, method, kw, use_date


def pipeline_oracle(ctx, ts, method, kw, use_date):
    from vlib import gen
    if use_date:
        r = D.call("date", ts, method=method, **kw)
    else:
        r = D.call(method, ts, **kw)
    desc = {"method": method, "via_date": use_date, "opts": D.jsonable_opts(kw), "ts": gen.ts_summary(ts)}
    if r[0] != "ok":
        ctx.case(dict(desc, outcome=r[1]), nontrivial=False, kind="pipeline/raise/" + r[1])
        return
    out = r[1]
    eps = kw.get("min_branch_length", 1e-8)
    ctx.case(dict(desc, outcome="ok", max_time=float(out.nodes_time.max())), nontrivial=True,
             kind="pipeline/ok/" + method)
    bad = check_output(ts, out, eps)
    if bad:
        ctx.oracle_fail("pipeline-" + bad[0], "%s %s" % (method, bad[1]),
                        {"level": "pipeline", "ts": gen.ts_tables_dict(ts), "method": method,
                         "opts": D.jsonable_opts(kw), "via_date": use_date})


def binding_eps_oracle(ctx, rng):
    """min_branch_length chosen RELATIVE to the dated time scale (a fraction of the branches of a first,
    default run are shorter than it), so that the constraint really binds -- also when the posterior
    means are already in topological order"""
    from vlib import gen
    import numpy as np
    ts, method, kw, use_date = pipeline_case(rng)
    kw.pop("min_branch_length", None)
    r = D.call(method, ts, **kw)
    if r[0] != "ok":
        return
    t = r[1].nodes_time
    lengths = np.array([t[e.parent] - t[e.child] for e in r[1].edges()])
    if lengths.size == 0:
        return
    eps = float(np.quantile(lengths, rng.choice([0.25, 0.5, 0.9]))) * rng.choice([0.5, 1.0, 2.0])
    if not (eps > 0 and math.isfinite(eps)):
        return
    kw2 = dict(kw, min_branch_length=eps)
    pipeline_oracle(ctx, ts, method, kw2, use_date)
    ctx.tally("pipeline/binding-eps")


def kernel_oracle(ctx, case, out):
    if out == "assert":
        return
    for p, c in zip(case["parent"], case["child"]):
        if not (out[p] >= out[c] + case["eps"]):
            ctx.oracle_fail("kernel-branch-shorter-than-eps", "edge %d->%d: %r < %r + eps" % (p, c, out[p], out[c]),
                            {"level": "kernel", "case": case, "impl": out})
            return


def run(ctx, model_ok=True):
    cases = [K.make_case(ctx.rng) for _ in range(ctx.n(150, 1000))]
    impl = K.correspondence(ctx, cases) if model_ok else [K.run_impl(c) for c in cases]
    for c, out in zip(cases, impl):
        kernel_oracle(ctx, c, out)
        ctx.case({"level": "kernel", "nodes": len(c["t"]), "eps": c["eps"], "k": c["k"], "style": c["style"],
                  "t": c["t"][:10]}, nontrivial=out != "assert", kind="kernel/" + c["style"])
    for _ in range(ctx.n(100, 1200)):
        pipeline_oracle(ctx, *pipeline_case(ctx.rng))
    for _ in range(ctx.n(50, 500)):
        binding_eps_oracle(ctx, ctx.rng)


def search(ctx):
    for _ in range(ctx.n(500, 3000)):
        c = K.make_case(ctx.rng)
        kernel_oracle(ctx, c, K.run_impl(c))
        if ctx.oracle_fails:
            return
    for _ in range(ctx.n(400, 2000)):
        pipeline_oracle(ctx, *pipeline_case(ctx.rng))
        binding_eps_oracle(ctx, ctx.rng)
        if ctx.oracle_fails:
            return


def replay(ctx, data):
    from vlib import gen
    case = data["case"]
    before = len(ctx.oracle_fails)
    if case.get("level") == "pipeline":
        pipeline_oracle(ctx, gen.ts_from_dict(case["ts"]), case["method"], case["opts"], case.get("via_date", False))
    else:
        kernel_oracle(ctx, case["case"], K.run_impl(case["case"]))
    return len(ctx.oracle_fails) == before
