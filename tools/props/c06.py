"""C06 -- changing time units rescales all outputs exactly."""
import math

import numpy as np

from props import _approx as A

ENV_BY_TIER = {"quick": {"NUMBA_DISABLE_JIT": "1"}, "thorough": {}}
LEVEL = "proof"

CS = [2.0, 3.7, 1e-4, 1e5, 1000.0 * math.pi]          # the property's list (function level: all of them)
CS_WIDE = [1e-6, 1e6]                                  # pipeline: also the ends of the range


def pipeline_factors(ctx):
    """thorough: all seven factors; quick: four per case -- 3.7, 1000 pi, one small and one large factor (one of
    them at the end of the range), so that a defect that only shows for c >= a few hundred, or <= 1e-5, is met"""
    if ctx.tier == "thorough":
        return CS + CS_WIDE
    return [3.7, 1000.0 * math.pi, ctx.rng.choice([1e-4, 1e-6, 1e-6]), ctx.rng.choice([1e5, 1e6, 1e6])]
POW2 = [2.0, 2.0 ** -20, 2.0 ** 30]

# relative tolerances of the whole-pipeline comparison (DESIGN.md section 8, C06), re-measured on the
# unchanged tree by this module (the measured maxima are written to the evidence)
TOL = {"variational_gamma": 1e-6, "inside_outside": 1e-10, "maximization": 1e-10}
# posterior VARIANCES of variational_gamma come out of the quantile fit of the rescaling step (Newton iteration
# stopped at a relative step of sqrt(eps)): measured max 1.2e-5 (463 comparisons, compiled kernels), typical 1e-7
TOL_VAR = {"variational_gamma": 1e-4, "inside_outside": 1e-10, "maximization": 1e-10}

RULE = ("PIPELINE: small msprime tree sequences (2-9 samples, 1-40 trees, haploid/diploid, historical and internal samples, "
        "phased and unphased singletons), 45 % of them with gen.exotic decorations (all nodes renumbered, extra flag bits, "
        "mutations above roots, mutation-free sites, unknown mutation times, odd allele states, populations) x the three "
        "methods x off-default options (rescaling_intervals 0 / 1-5 / default, match_segregating_sites, regularise_roots both "
        "ways, singletons_phased=False on ploidy-2 inputs, max_shape, constr_iterations; discrete: eps, probability_space, "
        "explicit prior grids with integer or array timepoints, population-size histories with 2-3 epochs) x c in "
        "{2, 3.7, 1e-4, 1e5, 1000 pi, 1e-6, 1e6} (quick: four per case incl. one end of the range): "
        "mutation rate / c, min_branch_length x c, input node and mutation times x c, and for the discrete methods "
        "population_size, eps and user timepoints x c; compared: node times, mutation times, posterior means (x c) and "
        "variances (x c^2) of nodes and mutations.  FUNCTION LEVEL: every moment function and projection wrapper of "
        "approx.py on recorded / coherent / wild argument tuples, rates / c and ages x c, for the same c (relative "
        "1e-4: the Laplace functions are ill-conditioned in corners) and for c = 2, 2^-20, 2^30 (must agree to 1e-14: a "
        "power of two commutes with every rounding).  A case is non-trivial when the dating succeeds / the update is "
        "not skipped.")
ASSUME = [
    "tools/translate.py reads approx.py correctly (validated on every run by the float correspondence)",
    "the equivariance theorems cover the EP moment updates (tsdate/approx.py) for arbitrary Laplace approximants; the rest of "
    "the pipeline (EP bookkeeping, prior, rescaling, constraints, discrete methods) is covered here by the metamorphic oracle "
    "on the implementation only (other properties model those parts)",
    "msprime/tskit produce the test inputs; tsdate.date is called through its public API",
]


def group():
    import translate
    g = translate.GROUPS["C06"]
    return g["hypergeo"] + g["approx"]


def regen(ctx):
    A.regen(ctx)


# ------------------------------------------------------------------ function level
def scale_args(fn, args, c):
    params = A.info()["meta"][fn]["params"]
    out = []
    for p, a in zip(params, args):
        if p in ("pars_i", "pars_j", "pars_ij"):
            out.append((a[0], a[1] / c))
        elif p in ("b_i", "b_j", "mu_ij"):
            out.append(a / c)
        elif p in ("t_i", "t_j"):
            out.append(a * c)
        else:
            out.append(a)          # shapes, counts
    return out


def scale_out(fn, out, c):
    """expected output at the new scale (None where unconstrained: log normalisers)"""
    if isinstance(out, str):
        return out
    if fn.endswith("_projection"):
        first = out[0] if fn.startswith("mutation_") else None
        return (first,) + tuple((p[0], p[1] / c) for p in out[1:])
    lay = A.LAYOUT[fn]
    res = []
    for k, x in zip(lay, out):
        res.append(None if k == "l" else x * c if k == "m" else x * c * c if k == "v" else x)
    return tuple(res)


def same_scaled(fn, want, got, exact):
    if isinstance(want, str) or isinstance(got, str):
        return want == got or "ZeroDivisionError" in (want, got) or "OverflowError" in (want, got) or \
            "ValueError" in (want, got)
    fw, fg = list(A.flat(want)), list(A.flat(got))
    if len(fw) != len(fg):
        return False
    if not exact and any(isinstance(x, float) and x != x for x in fw + fg):
        # a guard (variance > 0, ...) that sits on a rounding knife-edge may flip when c is not a power of two
        return True
    first_nan_w = fw[0] is not None and fw[0] != fw[0]
    lay = A.LAYOUT.get(fn)
    for k, (w, g) in enumerate(zip(fw, fg)):
        if w is None:
            continue                    # log normaliser: not an output of dating, shifts by a multiple of log c
        if w != w or g != g:
            if (w != w) != (g != g):
                return False
            continue
        if math.isinf(w) or math.isinf(g) or w == 0.0 or g == 0.0 or abs(w) < 1e-290 or abs(w) > 1e290:
            continue                    # overflow / underflow moved by the change of unit
        # c a power of two commutes with every rounding, so the scaled run repeats the base run bit for
        # bit -- except that pure Python evaluates x**2 with libm pow, which is not exactly x*x: allow the last
        # bits (and their amplification through E[x^2] - mean^2).  Other c: the dimensionless arguments of
        # the Laplace functions move by an ulp and their conditioning (shapes ~1e3, z near 1) shows.
        rel = 1e-14 if exact else 1e-4
        if not exact:
            # other c: only means and phase probabilities (variances and the natural parameters derived from
            # them wobble by up to 2e-4 in ill-conditioned corners of the Laplace functions on the unchanged tree)
            kind = (lay[k] if lay and k < len(lay) else "x") if not fn.endswith("_projection") else ("p" if k == 0 else "s")
            if kind not in "mp":
                continue
        abs_ = 0.0
        if lay and k < len(lay) and lay[k] == "v" and k > 0 and fw[k - 1] is not None:
            abs_ = rel * fw[k - 1] * fw[k - 1]
        if fn.endswith("_projection") and k >= 1:
            shape = fw[k] if (k % 2 == 1) else fw[k - 1]
            rel = rel * (abs(shape) + 2.0)
            abs_ = rel if k % 2 == 1 else 0.0
        if not A.close(w, g, rel, abs_):
            return False
    return True


def function_level(ctx, rec, n):
    import translate
    names = [f for f in translate.GROUPS["C06"]["approx"] if f != "approximate_gamma_mom" and not f.startswith("_valid")]
    for fn in names:
        f = A.real_fn(fn)
        pool = list(rec.get(fn, []))
        for k in range(n):
            u = ctx.rng.random()
            if pool and u < 0.4:
                args, src = ctx.rng.choice(pool), "recorded"
            elif u < 0.8:
                args, src = A.gen_args(ctx.rng, fn, tame=True), "coherent"
            else:
                args, src = A.gen_args(ctx.rng, fn), "wild"
            base = A.run_py(f, args)
            nontrivial = not isinstance(base, str) and not (next(A.flat(base)) != next(A.flat(base)))
            # other factors than powers of two only on EP-like arguments: on the wild stream (e.g. span 1e15 times
            # the rates, z within 1e-15 of 1) 1 - z is a catastrophic cancellation and moves by percents with c
            for c in (CS if src != "wild" else []) + POW2:
                got = A.run_py(f, scale_args(fn, args, c))
                want = scale_out(fn, base, c)
                exact = c in POW2
                ok = same_scaled(fn, want, got, exact)
                if not ok:
                    ctx.oracle_fail("function:%s" % fn, "time unit x %r: expected %r, got %r" % (c, want, got),
                                    {"fn": fn, "args": A.jsonable(args), "c": c, "base": A.jsonable(base),
                                     "scaled": A.jsonable(got), "source": src})
            ctx.case({"fn": fn, "args": A.jsonable(args), "source": src}, nontrivial=nontrivial,
                     kind="function/%s/%s" % (fn, "value" if nontrivial else "skip-or-raise"))


# ------------------------------------------------------------------ whole pipeline
def scale_ts(ts, c):
    """the same tree sequence with every time multiplied by c (sample ages, node times, known mutation times)"""
    import tskit
    tables = ts.dump_tables()
    tables.nodes.time = tables.nodes.time * c
    mt = tables.mutations.time.copy()
    known = ~tskit.is_unknown_time(mt)
    mt[known] = mt[known] * c
    tables.mutations.time = mt
    return tables.tree_sequence()


def pipeline_case(ctx):
    """-> (ts, method, options, grid, exotic kinds).  grid: None | (Ne, timepoints) for an explicit prior grid;
    a population-size HISTORY (several epochs) is passed as options['population_size'] = ('history', sizes, breaks)"""
    from props import _dating as D
    from vlib import gen
    rng = ctx.rng
    method = rng.choice(D.METHODS)
    dip = method == "variational_gamma" and rng.random() < 0.35
    vg = method == "variational_gamma"
    ts = D.datable_ts(rng, historical=vg and not dip and rng.random() < 0.35, internal=vg and not dip and rng.random() < 0.25,
                      big=ctx.tier == "thorough" and rng.random() < 0.3, ploidy=2 if dip else 1)
    kinds = []
    if rng.random() < 0.45:
        # valid-but-unusual decorations no simulator produces (node renumbering, extra flag bits, mutations above
        # roots, mutation-free sites, unknown mutation times, odd allele states, populations); both runs of a pair
        # use the same decorated input, so nothing has to be mapped back
        ts, kinds = gen.exotic(rng, ts, p=0.4)
    kw = D.method_options(rng, method, ts)
    kw.setdefault("min_branch_length", 1e-8)
    if vg:
        u = rng.random()
        if u < 0.3:
            kw["rescaling_intervals"] = 0
        elif u < 0.6:
            kw["rescaling_intervals"] = rng.choice([1, 2, 5])
        elif kw.get("rescaling_intervals") == 1000 and rng.random() < 0.6:
            kw.pop("rescaling_intervals")                   # the default (1000; mostly known finding K2 on tiny inputs)
        if rng.random() < 0.35:
            kw["match_segregating_sites"] = True
        kw["regularise_roots"] = rng.random() < 0.6       # root regularisation on more often than not
        if dip and rng.random() < 0.7:
            kw["singletons_phased"] = False
    grid = None
    if not vg:
        kw.setdefault("eps", rng.choice([1e-8, 1e-6, 1e-10]))
        u = rng.random()
        if u < 0.3:
            # user timepoints through an explicit prior grid
            ne = kw.pop("population_size")
            tp = rng.choice([5, 12, "array"])
            if tp == "array":
                tp = np.array(sorted({0.0} | {round(ne * x, 6) for x in (0.01, 0.1, 0.3, 1.0, 2.0, 5.0, 12.0)}))
            grid = (ne, tp)
        elif u < 0.55:
            # piecewise-constant population size history with 2-3 epochs
            ne = kw["population_size"]
            k = rng.choice([2, 3])
            sizes = [ne * rng.choice([0.2, 0.5, 1.0, 3.0, 10.0]) for _ in range(k)]
            breaks = sorted(ne * x for x in rng.sample([0.05, 0.3, 1.0, 2.5], k - 1))
            kw["population_size"] = ("history", sizes, breaks)
    return ts, method, kw, grid, kinds


def run_dating(D, ts, method, kw, grid, c):
    import tsdate
    kw = dict(kw)
    kw["mutation_rate"] = kw["mutation_rate"] / c
    kw["min_branch_length"] = kw["min_branch_length"] * c
    if "eps" in kw:
        kw["eps"] = kw["eps"] * c
    if "population_size" in kw:
        ne = kw["population_size"]
        if isinstance(ne, (tuple, list)) and ne and ne[0] == "history":
            from tsdate.demography import PopulationSizeHistory
            kw["population_size"] = PopulationSizeHistory(np.array(ne[1], dtype=float) * c, np.array(ne[2], dtype=float) * c)
        else:
            kw["population_size"] = ne * c
    t = scale_ts(ts, c) if c != 1.0 else ts
    if grid is not None:
        ne, tp = grid
        try:
            kw["priors"] = tsdate.build_prior_grid(t, population_size=ne * c, timepoints=tp if isinstance(tp, int) else tp * c)
        except Exception as e:  # noqa
            return ("raise", type(e).__name__, str(e)[:200])
    return D.call(method, t, **kw)


def result_arrays(D, out):
    """node and mutation outputs; _dating.result_arrays already puts the mutation rows in the canonical order
    (site, node, time): tskit's table sort orders the mutations of one site by node time, so rounding may
    permute ROWS between two scales (finding K9 of C02/C04/C22, not a matter of C06)"""
    return D.result_arrays(out)


def rel_diff(D, ts, method, kw, grid, c):
    """largest excess over the tolerance, as a ratio (<= 1 means within tolerance)"""
    base = run_dating(D, ts, method, kw, grid, 1.0)
    r = run_dating(D, ts, method, kw, grid, c)
    if base[0] != "ok" or r[0] != "ok":
        return float("inf")
    scale = {"node_time": c, "mut_time": c, "node_mn": c, "mut_mn": c, "node_vr": c * c, "mut_vr": c * c}
    a, b = result_arrays(D, base[1]), result_arrays(D, r[1])
    worst = 0.0
    for k in a:
        dk = D.max_rel_diff({k: a[k]}, {k: b[k]}, scale)[0]
        worst = max(worst, dk / (TOL_VAR[method] if k.endswith("_vr") else TOL[method]))
    return worst


def rescaling_changepoint_tie(D, ts, method, kw, grid, c):
    """diagnoses known finding K11 (same mechanism as K11 of C07): the changepoints of the rescaling step are
    picked by comparing cumulative mass fractions with k/epochs (searchsorted in _fixed_changepoints); the
    last-bit rounding of an inexact factor moves a boundary by one epoch.  Criterion: the SAME input is within
    tolerance under the nearest power-of-two factor (bit-identical with the compiled kernels; the pure-Python
    kernels evaluate x**2 with libm pow, measured 3e-11), and within tolerance for this c with the rescaling
    step switched off.  A dimensional error or an absolute constant fails at least one of the two."""
    c2 = 2.0 ** round(math.log2(c))
    off = dict(kw)
    off["rescaling_intervals"] = 0
    return rel_diff(D, ts, method, kw, grid, c2) <= 1.0 and rel_diff(D, ts, method, off, grid, c) <= 1.0


def pipeline(ctx, n):
    from props import _dating as D
    for _ in range(n):
        ts, method, kw, grid, kinds = pipeline_case(ctx)
        base = run_dating(D, ts, method, kw, grid, 1.0)
        for k_ in kinds:
            ctx.tally("exotic:" + k_)
        desc = {"method": method, "options": D.jsonable_opts({k: v for k, v in kw.items()}), "exotic": kinds,
                "grid": None if grid is None else [grid[0], grid[1] if isinstance(grid[1], int) else grid[1].tolist()],
                "input": __import__("vlib.gen", fromlist=["x"]).ts_summary(ts),
                "historical": bool(np.any(ts.nodes_time[ts.samples()] > 0))}
        ok = base[0] == "ok"
        ctx.case(dict(desc, result=base[0] if ok else base[1]), nontrivial=ok,
                 kind="pipeline/%s/%s" % (method, "dated" if ok else base[1]))
        if ok:
            a = result_arrays(D, base[1])
        for c in pipeline_factors(ctx):
            r = run_dating(D, ts, method, kw, grid, c)
            replay = dict(desc, c=c, tables=__import__("vlib.gen", fromlist=["x"]).ts_tables_dict(ts))
            if not ok:
                # the input is rejected (C35's business): it must be rejected at every scale, the same way
                if r[0] == "ok" or r[1] != base[1]:
                    ctx.oracle_fail("pipeline:%s:error-changes-with-scale:%s:%s" % (method, base[1], base[2][:60]),
                                    "c=1: %r; c=%r: %r" % (base[1:], c, r[1:] if r[0] != "ok" else "ok"), replay)
                continue
            if r[0] != "ok":
                ctx.oracle_fail("pipeline:%s:error-changes-with-scale:%s:%s" % (method, r[1], r[2][:60]),
                                "dated at c=1 but c=%r raises %r" % (c, r[1:]), replay)
                continue
            b = result_arrays(D, r[1])
            scale = {"node_time": c, "mut_time": c, "node_mn": c, "mut_mn": c, "node_vr": c * c, "mut_vr": c * c}
            d, where, bad = 0.0, None, False
            for k in a:
                dk, wk = D.max_rel_diff({k: a[k]}, {k: b[k]}, scale)
                tol = TOL_VAR[method] if k.endswith("_vr") else TOL[method]
                key = "max_rel_diff_%s_%s" % (method, "variances" if k.endswith("_vr") else "times_means")
                ctx.notes[key] = max(ctx.notes.get(key, 0.0), dk if math.isfinite(dk) else 1e99)
                if not dk <= tol and (not bad or dk > d):
                    d, where, bad = dk, wk, True
            if bad:
                sig = "pipeline:%s" % method
                if method == "variational_gamma" and kw.get("rescaling_intervals", 1000) != 0 and \
                        rescaling_changepoint_tie(D, ts, method, kw, grid, c):
                    sig = "rescaling-changepoint-tie"
                ctx.oracle_fail(sig, "time unit x %r: %s differs by %.3g relative (tolerance %g; %g for variances)" % (
                    c, where, d, TOL[method], TOL_VAR[method]), replay)


def run(ctx, model_ok=True):
    rec = {}
    if ctx.tier == "quick":
        with A.phase(ctx, "record_ep"):
            rec, runs = A.record_ep(ctx.rng, 8)
        ctx.notes["ep_runs_recorded"] = runs
    if model_ok:
        with A.phase(ctx, "float_correspondence"):
            A.correspondence(ctx, group(), ctx.n(6, 60), check_real=False)
    with A.phase(ctx, "function_level"):
        function_level(ctx, rec, ctx.n(20, 300))
    with A.phase(ctx, "pipeline"):
        pipeline(ctx, ctx.n(24, 400))


def search(ctx):
    rec = {}
    function_level(ctx, rec, ctx.n(150, 600))
    if not ctx.oracle_fails:
        pipeline(ctx, ctx.n(120, 600))


def replay(ctx, data):
    case = data["case"]
    A.regen(None)
    before = len(ctx.oracle_fails)
    if "fn" in case:
        fn = case["fn"]
        args = [tuple(float(x) for x in a) if isinstance(a, list) else float(a) for a in case["args"]]
        f = A.real_fn(fn)
        base = A.run_py(f, args)
        c = float(case["c"])
        got = A.run_py(f, scale_args(fn, args, c))
        return same_scaled(fn, scale_out(fn, base, c), got, c in POW2)
    from props import _dating as D
    from vlib import gen
    ts = gen.ts_from_dict(case["tables"])
    kw = dict(case["options"])
    if isinstance(kw.get("population_size"), list):
        kw["population_size"] = tuple(kw["population_size"])
    grid = case.get("grid")
    if grid is not None:
        grid = (grid[0], grid[1] if isinstance(grid[1], int) else np.array(grid[1]))
    base = run_dating(D, ts, case["method"], kw, grid, 1.0)
    r = run_dating(D, ts, case["method"], kw, grid, float(case["c"]))
    if base[0] != "ok" or r[0] != "ok":
        return base[0] != "ok" and r[0] != "ok" and base[1] == r[1]
    c = float(case["c"])
    d = rel_diff(D, ts, case["method"], kw, grid, c)
    print("largest difference / tolerance:", d)
    return d <= 1.0
