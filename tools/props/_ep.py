"""Shared by C21 / C20 / C05 / C23: cases for the expectation-propagation bookkeeping of
tsdate.variational, the *tape* correspondence with coq/model/EP.v (the projection results
the implementation computed are recorded and replayed through the Gallina model evaluated on
binary64 PrimFloat inside Coq; posterior, scale and all factors are compared bit for bit
after every iteration, and so are the arguments of every projection call), and independent
re-computations used by the property oracles."""
import json
import math
import os
import subprocess
import sys

import numpy as np

from vlib import gen
from vlib.coqfmt import cfloat, cnat, cbool, clist, cpair

PROJ = {  # approx function -> (model kinds, unphased flag)
    "leafward_projection": ((0,), False),
    "rootward_projection": ((1,), False),
    "gamma_projection": ((3,), False),
    "sideways_projection": ((0, 1), True),
    "twin_projection": ((2,), True),
    "unphased_projection": ((3,), True),
}
TINY = float(np.sqrt(np.finfo(np.float64).tiny))
EM_MAXITT = 10
EM_RELTOL = 1e-8


# ---------------------------------------------------------------- cases
EXOTIC_P = 0.4     # fraction of tree-sequence-level inputs that get gen.exotic decorations


def decorate(rng, ts, force=False):
    """valid-but-unusual decorations that must not matter to the EP code (gen.exotic): extra node
    flag bits, renumbering of ALL nodes, mutations above local roots (mutation_edges == NULL),
    mutation-free sites, unknown mutation times, arbitrary allele states, populations.
    Returns (ts, applied kinds)"""
    if not force and rng.random() >= EXOTIC_P:
        return ts, []
    ts2, applied = gen.exotic(rng, ts, p=0.35)
    if not applied:      # make sure the selected fraction really is decorated
        k = rng.choice(["permute_nodes", "root_mutations", "extra_flags"])
        ts2, applied = gen.exotic(rng, ts, kinds=[k], p=1.0)
    return ts2, applied


def make_ts(rng, kind=None):
    """small tree sequence; kinds: plain haploid, diploid individuals (unphased singletons
    possible), historical samples, internal samples, star, unary (chain of locally unary nodes
    above a local root; needs allow_unary)"""
    kind = kind or rng.choice(["plain", "diploid", "diploid", "diploid", "historical", "internal",
                               "dip-hist", "dip-internal", "star", "unary"])
    if kind == "star":
        return star_ts(rng), kind
    if kind == "star-big":   # many capped visits of one node: drives scale below TINY mid-loop
        return star_ts(rng, n=rng.randint(25, 60), L=1000, trees=1, nmut=rng.randint(300, 600)), kind
    if kind == "unary":
        for _ in range(6):
            base = gen.sim_ts(rng, n=rng.randint(3, 5), L=rng.choice([20, 100]), rec=rng.choice([2.0, 10.0]) / 100,
                              multimerger=False, historical=False, mu=rng.choice([1.0, 3.0]) / 20)
            ts = gen.unary_chain_ts(rng, base)
            if ts is not None:
                return ts, kind
        return base, "plain"
    ploidy = 2 if kind.startswith("dip") else 1
    n = rng.randint(2, 5) if ploidy == 1 else rng.randint(1, 3)
    L = rng.choice([5, 20, 100])
    hist = kind in ("historical", "dip-hist")
    ts = gen.sim_ts(rng, n=n, L=L, ploidy=ploidy, historical=hist, multimerger=False,
                    mu=rng.choice([1.0, 3.0, 10.0]) / L)
    if kind.endswith("internal"):
        ts = gen.internal_samples(rng, ts, k=rng.randint(1, 2))
    return ts, kind


def star_ts(rng, n=None, L=None, nmut=None, trees=None):
    """every edge joins a non-sample parent to a sample at time 0 (one parent per tree);
    nmut mutations at distinct integer positions, each on a random sample"""
    import tskit
    n = n or rng.randint(2, 6)
    trees = trees or rng.choice([1, 1, 2, 3])
    L = L or rng.choice([10, 100, 1000])
    trees = min(trees, L)
    tables = tskit.TableCollection(L)
    for _ in range(n):
        tables.nodes.add_row(flags=tskit.NODE_IS_SAMPLE, time=0)
    brk = sorted(set([0, L] + [rng.randint(1, L - 1) for _ in range(trees - 1)]))
    for k in range(len(brk) - 1):
        p = tables.nodes.add_row(flags=0, time=1.0 + k)
        for c in range(n):
            tables.edges.add_row(brk[k], brk[k + 1], p, c)
    nm = rng.choice([0, 3, 10, 40]) if nmut is None else nmut
    used = sorted(set(rng.randint(0, L - 1) for _ in range(nm)))
    for x in used:
        s = tables.sites.add_row(x, "0")
        tables.mutations.add_row(site=s, node=rng.randint(0, n - 1), derived_state="1")
    tables.sort()
    tables.build_index()
    tables.compute_mutation_parents()
    return tables.tree_sequence()


def make_opts(rng, ts=None, small_shape=None):
    small = rng.random() < 0.6 if small_shape is None else small_shape
    return {
        "mutation_rate": rng.choice([1e-3, 1e-2, 0.1, 1.0]),
        "singletons_phased": rng.random() < 0.4,
        "max_shape": rng.choice([1.5, 2.0, 3.0, 5.0, 20.0]) if small else rng.choice([100.0, 1000.0]),
        "min_step": rng.choice([0.1, 0.1, 0.5, 0.01]),
        "regularise": rng.random() < 0.6,
        "iterations": rng.choice([1, 2, 3]),
    }


def make_case(rng, kind=None, small_shape=None, exotic=None):
    ts, kind = make_ts(rng, kind)
    opts = make_opts(rng, ts, small_shape)
    if kind == "star-big":
        opts.update(max_shape=rng.choice([1.0001, 1.001, 1.01, 1.1]), mutation_rate=1e-2,
                    iterations=rng.choice([1, 2]), regularise=rng.random() < 0.5)
    if kind in ("star", "star-big", "plain", "historical", "internal", "dip-hist", "unary"):
        opts["singletons_phased"] = True   # singleton blocking needs contemporary diploid individuals
    elif rng.random() < 0.8:
        opts["singletons_phased"] = False
    if kind == "unary":
        opts["allow_unary"] = True
    applied = []
    if exotic is None or exotic:
        ts, applied = decorate(rng, ts, force=bool(exotic))
    return {"ts": ts_dict(ts_of(ts_dict(ts))), "kind": kind, "opts": opts, "exotic": applied}   # canonical row order


def ts_dict(ts):
    """gen.ts_tables_dict plus what the exotic decorations add (populations, allele states,
    known/unknown mutation times), so that a replayed case is the same input"""
    import tskit
    d = gen.ts_tables_dict(ts)
    d["nodes_population"] = [int(x) for x in ts.nodes_population]
    d["num_populations"] = int(ts.num_populations)
    d["site_states"] = [s.ancestral_state for s in ts.sites()]
    d["mut_states"] = [m.derived_state for m in ts.mutations()]
    d["mut_times"] = [None if tskit.is_unknown_time(m.time) else float(m.time) for m in ts.mutations()]
    return d


def ts_of(d):
    import tskit
    ts = gen.ts_from_dict(d)
    if "site_states" not in d:
        return ts
    t = ts.dump_tables()
    # gen.ts_from_dict sorts: sites by position (ours are already), mutations keep (site, row) order
    assert [float(x) for x in t.sites.position] == d["sites"]
    t.sites.packset_ancestral_state(d["site_states"])
    # the sort may reorder the mutations of one site (unknown times: by node time): match rows by (site, node)
    pool = {}
    for (si, u), st, tm in zip(d["mutations"], d["mut_states"], d["mut_times"]):
        pool.setdefault((si, u), []).append((st, tm))
    states, times = [], []
    for si, u in zip(t.mutations.site, t.mutations.node):
        st, tm = pool[(int(si), int(u))].pop(0)
        states.append(st)
        times.append(tskit.UNKNOWN_TIME if tm is None else tm)
    t.mutations.packset_derived_state(states)
    t.mutations.time = np.array(times)
    t.sort()
    t.build_index()
    t.compute_mutation_parents()
    if d["num_populations"]:
        t.populations.clear()
        for _ in range(d["num_populations"]):
            t.populations.add_row()
        t.nodes.population = np.array(d["nodes_population"], dtype=np.int32)
    return t.tree_sequence()


def case_ts(case):
    return ts_of(case["ts"])


# ---------------------------------------------------------------- recording a run
def _fl(x):
    return np.asarray(x, dtype=float).tolist()


def snapshot(ep):
    f = ep.factors
    return {
        "post": _fl(ep.node_posterior), "scale": _fl(f.scale), "edge": _fl(f.edge),
        "block": _fl(f.block), "node": _fl(f.node),
    }


def new_ep(ts, opts):
    import tsdate.variational as V
    return V.ExpectationPropagation(ts, mutation_rate=opts["mutation_rate"],
                                    singletons_phased=opts["singletons_phased"],
                                    allow_unary=opts.get("allow_unary", False))


def static_of(ep):
    return {
        "edges": [[int(p), int(c)] for p, c in zip(ep.edge_parents, ep.edge_children)],
        "block_edges": [[int(a), int(b)] for a, b in ep.block_edges],
        "block_nodes": [[int(a), int(b)] for a, b in zip(ep.block_nodes[0], ep.block_nodes[1])],
        "constraints": _fl(ep.node_constraints),
        "elik": _fl(ep.edge_likelihoods), "blik": _fl(ep.block_likelihoods),
        "free": [bool(x) for x in ep.unconstrained_roots],
        "edge_order": [int(x) for x in ep.edge_order],
        "block_order": [int(x) for x in ep.block_order],
    }


def record(case):
    """run iterate() on the implementation (pure-Python kernels: NUMBA_DISABLE_JIT=1) with
    every approx.*_projection referenced from tsdate.variational wrapped; returns
    {'static', 'tape', 'states', 'status'}"""
    import tsdate.approx as A
    assert os.environ.get("NUMBA_DISABLE_JIT") == "1", "tape recording needs the pure-Python kernels"
    ts = case_ts(case)
    opts = case["opts"]
    tape = []
    saved = {}

    def wrap(name):
        f = getattr(A, name)
        saved[name] = f

        def g(*a):
            args = [_fl(x) for x in a]
            r = f(*a)
            tape.append({"fn": name, "args": args, "res": [_fl(x) for x in r[1:]]})
            return r
        setattr(A, name, g)

    for name in PROJ:
        wrap(name)
    try:
        try:
            ep = new_ep(ts, opts)
        except (ValueError, AssertionError) as e:
            return {"status": "init:" + type(e).__name__ + ":" + str(e)[:60]}
        out = {"static": static_of(ep), "states": [], "status": "ok"}
        for _ in range(opts["iterations"]):
            try:
                with np.errstate(all="ignore"):
                    ep.iterate(max_shape=opts["max_shape"], min_step=opts["min_step"],
                               regularise=opts["regularise"])
            except AssertionError:
                out["status"] = "assert"
                break
            except (ZeroDivisionError, FloatingPointError, IndexError) as e:
                out["status"] = "error:" + type(e).__name__
                break
            out["states"].append(snapshot(ep))
        out["tape"] = tape
        return out
    finally:
        for name, f in saved.items():
            setattr(A, name, f)


def record_subprocess(cases):
    """same as [record c for c in cases] but in a child interpreter with NUMBA_DISABLE_JIT=1
    (used by the thorough tier, whose own interpreter runs the numba-compiled kernels)"""
    env = dict(os.environ)
    env["NUMBA_DISABLE_JIT"] = "1"
    p = subprocess.run([sys.executable, "-c",
                        "import sys, json; from props import _ep; "
                        "cs = json.load(sys.stdin); json.dump([_ep.record(c) for c in cs], sys.stdout)"],
                       input=json.dumps(cases), capture_output=True, text=True, env=env, timeout=3000)
    if p.returncode != 0:
        raise RuntimeError("tape recorder failed: " + p.stderr[-2000:])
    return json.loads(p.stdout[p.stdout.index("["):])


def record_all(cases):
    if os.environ.get("NUMBA_DISABLE_JIT") == "1":
        return [record(c) for c in cases]
    return record_subprocess(cases)


# ---------------------------------------------------------------- the model run
def cv2(v):
    return cpair(cfloat(v[0]), cfloat(v[1]))


def cv22(f):
    return cpair(cv2(f[0]), cv2(f[1]))


def tape_entry(t):
    """(new parent parameters, new child parameters) as the model reads them"""
    kinds, _u = PROJ[t["fn"]]
    if kinds == (3,):
        return cpair(cv2(t["res"][0]), cv2(t["res"][1]))
    return cpair(cv2(t["res"][0]), cv2(t["res"][0]))


def coq_term(case, rec):
    s = rec["static"]
    o = case["opts"]
    return ("run_tape FNum %s infinity %s %s %s %s %s %s %s %s %s %s %s %s %s" % (
        cfloat(TINY),
        clist(s["edges"], lambda e: cpair(cnat(e[0]), cnat(e[1]))),
        clist(s["block_edges"], lambda e: cpair(cnat(e[0]), cnat(e[1]))),
        clist(s["constraints"], cv2), clist(s["elik"], cv2), clist(s["blik"], cv2),
        clist(s["free"], cbool), cfloat(o["max_shape"]), cfloat(o["min_step"]), cfloat(EM_RELTOL),
        cnat(EM_MAXITT), cbool(o["regularise"]), cnat(o["iterations"]),
        clist(rec["tape"], tape_entry)))


def run_model(ctx, pairs, chunk=12):
    """pairs: list of (case, rec); returns parsed model results in order"""
    out = []
    for k in range(0, len(pairs), chunk):
        body = ""
        for j, (c, r) in enumerate(pairs[k:k + chunk]):
            s = r["static"]
            body += "Definition r%d := (%s, mk_edge_order %s %s, mk_block_nodes (nthf 0%%nat %s) %s).\nEval vm_compute in r%d.\n" % (
                j, coq_term(c, r), cnat(len(s["edges"])),
                clist(s["block_edges"], lambda e: cpair(cnat(e[0]), cnat(e[1]))),
                clist([e[0] for e in s["edges"]], cnat),
                clist(s["block_edges"], lambda e: cpair(cnat(e[0]), cnat(e[1]))), j)
        out += ctx.coq_eval(body, requires=("lib.Num", "model.EP"), tag="ep")
    return out


def _flat(x, out=None):
    out = [] if out is None else out
    if isinstance(x, (list, tuple)):
        for y in x:
            _flat(y, out)
    else:
        out.append(float(x))
    return out


def _same(a, b):
    """equality as doubles of the flattened float sequences (Coq prints left-nested pairs
    flat, so only the flattened order is comparable); NaN equals NaN, -0.0 equals 0.0"""
    fa, fb = _flat(a), _flat(b)
    if len(fa) != len(fb):
        return False
    for x, y in zip(fa, fb):
        if math.isnan(x) or math.isnan(y):
            if not (math.isnan(x) and math.isnan(y)):
                return False
        elif x != y:
            return False
    return True


def compare(case, rec, res):
    """returns None when model and implementation agree, else a description"""
    states, ok, calls, left, order, bnodes = res   # Coq prints left-nested pairs flat
    s = rec["static"]
    if [int(x) for x in order] != s["edge_order"]:
        return "edge_order: impl %r model %r" % (s["edge_order"], order)
    if [[int(a), int(b)] for a, b in bnodes] != s["block_nodes"]:
        return "block_nodes: impl %r model %r" % (s["block_nodes"], bnodes)
    if s["block_order"] != list(range(len(s["block_edges"]))):
        return "block_order is not arange"
    if rec["status"] == "assert":
        if ok:
            return "implementation raised AssertionError, model did not"
    elif rec["status"] != "ok":
        return None   # ZeroDivision etc.: outside the model (counted by the caller)
    elif not ok:
        return "model hit an assertion after %d iterations, implementation did not" % len(states)
    n = len(rec["states"])
    if len(states) < n:
        return "model completed %d iterations, implementation %d" % (len(states), n)
    for it in range(n):
        po, sc, fe, fb, fn = states[it]
        imp = rec["states"][it]
        for name, a, b in (("post", po, imp["post"]), ("scale", sc, imp["scale"]), ("edge", fe, imp["edge"]),
                           ("block", fb, imp["block"]), ("node", fn, imp["node"])):
            if not _same(a, b):
                return "iteration %d: %s differs: impl %r model %r" % (it, name, b, a)
    if rec["status"] == "ok":
        if left != 0:
            return "model left %d tape entries unused" % left
        if len(calls) != len(rec["tape"]):
            return "model made %d projection calls, implementation %d" % (len(calls), len(rec["tape"]))
        for k, (cl, t) in enumerate(zip(calls, rec["tape"])):
            kind, unph, age, pc, cc, el = cl
            kinds, u = PROJ[t["fn"]]
            if kind not in kinds or bool(unph) != u:
                return "call %d: model kind %r/%r, implementation %s" % (k, kind, unph, t["fn"])
            if kind == 0:
                margs = [age, cc, el]
            elif kind == 1:
                margs = [age, pc, el]
            elif kind == 2:
                margs = [pc, el]
            else:
                margs = [pc, cc, el]
            if not _same(margs, t["args"]):
                return "call %d (%s): arguments differ: impl %r model %r" % (k, t["fn"], t["args"], margs)
    return None


def correspondence(ctx, cases, recs, label="ep-tape"):
    pairs = [(c, r) for c, r in zip(cases, recs) if "static" in r]
    res = run_model(ctx, pairs)
    for (c, r), m in zip(pairs, res):
        d = compare(c, r, m)
        ctx.corr(label, d is None, d or "", replay={"case": c, "detail": d})
        if r["status"].startswith("error"):
            ctx.tally("impl-" + r["status"])


# ---------------------------------------------------------------- independent bookkeeping oracle
def assemble(static, state):
    """sum of all messages addressed to each node, computed from the raw factor arrays
    (independent of _assemble_factors)"""
    n = len(static["constraints"])
    tot = np.zeros((n, 2))
    edge = np.asarray(state["edge"], dtype=float).reshape(-1, 2, 2)
    block = np.asarray(state["block"], dtype=float).reshape(-1, 2, 2)
    node = np.asarray(state["node"], dtype=float).reshape(-1, 2, 2)
    for i, (p, c) in enumerate(static["edges"]):
        tot[p] += edge[i, 0]
        tot[c] += edge[i, 1]
    for i, (j, k) in enumerate(static["block_nodes"]):
        tot[j] += block[i, 0]
        tot[k] += block[i, 1]
    tot += node[:, 0]
    tot += node[:, 1]
    return tot


def assemble_abs(static, state):
    """sum of the ABSOLUTE values of all messages addressed to each node: the magnitude against which
    a rounding error of the sum has to be judged (messages of both signs can cancel)"""
    st = dict(state)
    for k in ("edge", "block", "node"):
        st[k] = np.abs(np.asarray(state[k], dtype=float))
    return assemble(static, st)


def close(a, b, rtol=1e-9, atol=0.0):
    a = np.asarray(a, dtype=float)
    b = np.asarray(b, dtype=float)
    with np.errstate(all="ignore"):
        return bool(np.all(np.abs(a - b) <= atol + rtol * np.maximum(np.abs(a), np.abs(b))))


# ---------------------------------------------------------------- star inputs (C20)
def star_ts2(rng, isolate=None):
    """star-like tree sequence: every edge joins a non-sample parent to a sample at time 0.
    1-4 trees; a parent may span several trees (un-squashed adjacent edges) or be new in each;
    each tree holds a subset (>= 2) of the samples; skewed mutation counts per sample.
    isolate (default: half of the multi-tree inputs): 'partially isolated samples' -- some samples have NO
    edge on an interval (interior gap or up to the end of the sequence: missing data) and mutations are
    placed above them both inside and outside the isolated stretch, plus mutations above the star parents
    (roots where present, on no edge; absent elsewhere).  None of those sits on an edge, so none counts."""
    import tskit
    n = rng.randint(2, 8)
    L = rng.choice([10, 100, 1000])
    T = min(rng.choice([1, 1, 2, 3, 4]), L)
    if isolate is None:
        isolate = rng.random() < 0.5
    if isolate and T == 1:
        T = min(rng.choice([2, 3, 4]), L)
        n = max(n, 3)
    brk = sorted(set([0, L] + [rng.randint(1, L - 1) for _ in range(T - 1)]))
    tables = tskit.TableCollection(L)
    for _ in range(n):
        tables.nodes.add_row(flags=tskit.NODE_IS_SAMPLE, time=0)
    parents = []
    present = []
    seen = set()
    for k in range(len(brk) - 1):
        if parents and rng.random() < 0.4:
            p = rng.choice(parents)
        else:
            p = tables.nodes.add_row(flags=0, time=1.0 + len(parents))
        parents.append(p)
        kids = [c for c in range(n) if rng.random() < 0.8]
        while len(kids) < 2:
            c = rng.randrange(n)
            if c not in kids:
                kids.append(c)
        if k == len(brk) - 2:
            kids = sorted(set(kids) | (set(range(n)) - seen))
        if isolate and k > 0 and len(kids) > 2:
            gone = [c for c in kids if c in seen]      # had an edge before, loses it here
            if gone and len(kids) == n:
                kids.remove(rng.choice(gone))
        seen |= set(kids)
        present.append(sorted(kids))
        for c in sorted(kids):
            tables.edges.add_row(brk[k], brk[k + 1], p, c)
    weight = [rng.choice([0.0, 0.2, 1.0, 1.0, 5.0]) for _ in range(n)]
    dens = rng.choice([0.0, 0.05, 0.05, 0.1, 0.3, 0.3, 0.9, 0.9])
    if isolate:
        dens = max(dens, rng.choice([0.1, 0.3]) if L > 10 else 0.5)
    for x in range(L):
        if rng.random() < dens:
            k = max(j for j in range(len(brk) - 1) if brk[j] <= x)
            absent = [c for c in range(n) if c not in present[k]]
            if isolate and rng.random() < 0.35:
                # on no edge at x: an isolated sample, the parent that is the root here, or a parent absent here
                pool = absent * 3 + [parents[k]] + [q for q in set(parents) if q != parents[k]]
                c = rng.choice(pool)
            else:
                w = [weight[c] for c in present[k]]
                if sum(w) <= 0:
                    continue
                c = rng.choices(present[k], weights=w)[0]
            s = tables.sites.add_row(x, "0")
            tables.mutations.add_row(site=s, node=c, derived_state="1")
    tables.sort()
    tables.build_index()
    tables.compute_mutation_parents()
    return tables.tree_sequence()


def star_closed_form(ts, mutation_rate):
    """exact (sum of mutation counts, mutation_rate * sum of spans) per parent, as Fractions, computed from
    the tables with the tskit Tree API: a mutation counts for a parent only if an edge parent -> node
    covers its position (mutations above isolated samples or above roots count for nobody)"""
    from fractions import Fraction
    import tskit
    y = {}
    mu = {}
    rate = Fraction(mutation_rate)
    for e in ts.edges():
        mu[e.parent] = mu.get(e.parent, Fraction(0)) + rate * (Fraction(e.right) - Fraction(e.left))
        y.setdefault(e.parent, Fraction(0))
    tree = tskit.Tree(ts)
    for site in ts.sites():
        tree.seek(site.position)
        for m in site.mutations:
            e = tree.edge(m.node)
            if e != tskit.NULL:
                assert ts.edges_child[e] == m.node and ts.edges_left[e] <= site.position < ts.edges_right[e]
                y[int(ts.edges_parent[e])] += 1
    return y, mu
