"""C34 -- the command-line interface is faithful to the Python API.

 regen : tools/translate_cli.py rewrites coq/gen/CliGen.v from tsdate/cli.py (fail closed);
 proofs: coq/props/C34.v re-checks the table theorems on the regenerated text;
 A. plumbing correspondence: random command lines through the real tsdate.cli.tsdate_main with
    tsdate.date / tsdate.preprocess_ts replaced by recorders, against coq/model/Cli.v
    (cli_main cli argv evaluated in Coq): same exit/called decision, same API function, same
    keyword -> value bindings, same file names;
 B. the property oracle (differential): the real tsdate_main(argv) on real files against the
    Python call with the same option values (mapping written here from the documentation, not
    read from cli.py): identical tables apart from provenance timing; whenever the Python call
    is rejected the command must fail and write nothing; known finding K6.
"""
import contextlib
import io
import json
import math
import os
import warnings

import numpy as np

ENV_BY_TIER = {"quick": {"NUMBA_DISABLE_JIT": "1"}, "thorough": {"NUMBA_DISABLE_JIT": "1"}}

RULE = ("A: random command lines: sub-command, file names (+ rarely the deprecated positional, a missing or an "
        "extra one), a random subset of the options of that sub-parser in random order, any flag spelling, "
        "values from per-type pools (floats incl. negative/exponent/inf/nan, ints, strings, method choices valid "
        "and invalid, 16 boolean spellings valid and invalid), options repeated, options before or after the "
        "file names; B: every single option x value, every pair of options for each method, random larger "
        "subsets (falsy values 0 / 0.0 of --rescaling-intervals, --max-iterations, --num-threads included), on "
        "small simulated tree sequences (date) and tree sequences with flanks, gaps and disjoint nodes "
        "(preprocess), ~40% of them with gen.exotic decorations (extra flag bits, all nodes renumbered, mutations "
        "above roots, mutation-free sites, unknown mutation times, arbitrary allele states, populations); "
        "non-trivial = at least one option given; distinct by content hash")
ASSUME = ["argparse features outside the model are not generated: abbreviated long options, --opt=value, "
          "clustered short flags, non-contiguous positionals, malformed numeric literals, -h",
          "the documented option -> API keyword mapping written in tools/props/c34.py (DATE_MAP, PRE_MAP)",
          "tskit's TableCollection.assert_equals for the comparison of dumped tables"]
LEVEL = "proof"

_REGEN_OK = True


def regen(ctx):
    global _REGEN_OK
    import importlib.util
    here = os.path.dirname(os.path.abspath(__file__))
    spec = importlib.util.spec_from_file_location("translate_cli", os.path.join(here, "..", "translate_cli.py"))
    mod = importlib.util.module_from_spec(spec)
    spec.loader.exec_module(mod)
    try:
        mod.main()
        _REGEN_OK = True
    except Exception:
        _REGEN_OK = False
        # the driver skips the proof build when the translator fails: record the obligations
        # (all undischarged) so that the evidence still says what was at stake
        import re
        try:
            src = open(os.path.join(here, "..", "..", "coq", "props", "C34.v")).read()
            src = re.sub(r"\(\*.*?\*\)", "", src, flags=re.S)
            ctx.theorems = re.findall(r"^\s*(?:Theorem|Example)\s+([A-Za-z0-9_']+)", src, re.M)
            ctx.obligations = len(ctx.theorems)
            ctx.discharged = 0
            ctx.checker_cmd = "not run: tools/translate_cli.py failed (fail-closed translator)"
        except OSError:
            pass
        raise


# ------------------------------------------------------------------ documented mapping (oracle side)
# flag spellings -> (API keyword, type) ; written from the documentation of the CLI and of tsdate.date
DATE_MAP = {
    ("-m", "--mutation-rate"): ("mutation_rate", "float"),
    ("-r", "--recombination-rate"): ("recombination_rate", "float"),
    ("-e", "--epsilon"): ("eps", "float"),
    ("-b", "--min-branch-length"): ("min_branch_length", "float"),
    ("--method",): ("method", "str"),
    ("-p", "--progress"): ("progress", "flag"),
    ("--rescaling-intervals",): ("rescaling_intervals", "int"),
    ("--max-iterations",): ("max_iterations", "int"),
    ("-n", "--population_size"): ("population_size", "float"),
    ("-t", "--num-threads"): ("num_threads", "int"),
    ("--probability-space",): ("probability_space", "str"),
    ("-v", "--verbosity"): (None, "count"),
}
PRE_MAP = {
    ("--minimum_gap",): ("minimum_gap", "float"),
    ("--erase-flanks", "--trim_telomeres"): ("erase_flanks", "bool"),
    ("--split-disjoint",): ("split_disjoint", "bool"),
    ("-v", "--verbosity"): (None, "count"),
}
TRUE_WORDS = ["True", "true", "TRUE", "t", "T", "yes", "Yes", "y", "1"]
FALSE_WORDS = ["False", "false", "FALSE", "f", "F", "no", "No", "n", "0"]
BAD_BOOL = ["maybe", "2", "truee", "off"]
METHODS = ["variational_gamma", "inside_outside", "maximization"]


def to_bool(s):
    if s.lower() in ("true", "t", "yes", "y", "1"):
        return True
    if s.lower() in ("false", "f", "no", "n", "0"):
        return False
    return None


def lookup(table, flag):
    for flags, (kw, typ) in table.items():
        if flag in flags:
            return kw, typ
    return None


def api_kwargs(table, opts):
    """keyword arguments of the Python call with the same option values.
    opts: list of (flag, value-or-None) in command line order; later ones win.
    returns None when a value cannot be converted (then the command line itself is invalid)"""
    kw = {}
    for flag, val in opts:
        k, typ = lookup(table, flag)
        if typ == "count":
            continue
        if typ == "flag":
            kw[k] = True
        elif typ == "float":
            kw[k] = float(val)
        elif typ == "int":
            kw[k] = int(val)
        elif typ == "bool":
            b = to_bool(val)
            if b is None:
                return None
            kw[k] = b
        else:
            kw[k] = val
    return kw


# ------------------------------------------------------------------ running the CLI in-process
def run_cli(argv):
    """(status, exc): status 0 = returned / exit code 0; otherwise non-zero"""
    import tsdate.cli as cli
    err = io.StringIO()
    try:
        with contextlib.redirect_stderr(err), contextlib.redirect_stdout(io.StringIO()):
            with warnings.catch_warnings():
                warnings.simplefilter("ignore")
                with np.errstate(all="ignore"):
                    cli.tsdate_main(list(argv))
        return 0, None
    except SystemExit as e:
        code = e.code
        if code is None or code == 0:
            return 0, None
        return (code if isinstance(code, int) else 1), "SystemExit(%r)" % (code,)
    except BaseException as e:   # noqa: BLE001
        if isinstance(e, (KeyboardInterrupt, MemoryError)):
            raise
        return 1, "%s: %s" % (type(e).__name__, str(e)[:150])


class Recorder:
    def __init__(self, name, ret):
        self.name = name
        self.ret = ret
        self.calls = []

    def __call__(self, *a, **kw):
        self.calls.append((self.name, a, kw))
        return self.ret


def run_cli_recorded(argv, ts):
    """tsdate_main with the two API functions replaced by recorders"""
    import tsdate
    from unittest import mock
    rd = Recorder("date", ts)
    rp = Recorder("preprocess_ts", ts)
    with mock.patch.object(tsdate, "date", rd), mock.patch.object(tsdate, "preprocess_ts", rp):
        status, exc = run_cli(argv)
    return status, exc, rd.calls + rp.calls


def api_default(k):
    """the value the Python API itself uses when the keyword is None / absent (documentation)"""
    from tsdate import core
    return {"min_branch_length": core.DEFAULT_MIN_BRANCH_LENGTH, "eps": core.DEFAULT_EPSILON, "progress": False,
            "method": "variational_gamma", "minimum_gap": 1000000, "erase_flanks": True,
            "split_disjoint": True}.get(k)


# ------------------------------------------------------------------ A. model <-> implementation
FLOATS = ["0.5", "1e-5", "-1", "3", "1E3", ".5", "-0.25", "inf", "nan", "1e-08", "100"]
INTS = ["3", "0", "-2", "007", "1", "25"]
STRS = ["linear", "logarithmic", "foo", "LOG", "x_y"]


def rand_value(rng, typ, valid_only=False):
    if typ == "float":
        return rng.choice(FLOATS)
    if typ == "int":
        return rng.choice(INTS)
    if typ == "bool":
        pool = TRUE_WORDS + FALSE_WORDS + ([] if valid_only else BAD_BOOL)
        return rng.choice(pool)
    return rng.choice(STRS)


def rand_argv(rng, infile, outfile):
    r = rng.random()
    if r < 0.02:
        return rng.choice([[], ["-V"], ["--version"], ["frobnicate", infile, outfile], [infile, outfile]])
    sub = "date" if rng.random() < 0.6 else "preprocess"
    table = DATE_MAP if sub == "date" else PRE_MAP
    pos = [infile, outfile]
    r = rng.random()
    if r < 0.04:
        pos = [infile]
    elif r < 0.08 and sub == "date":
        pos = [infile, outfile, rng.choice(["10000", "0.5"])]
    elif r < 0.10:
        pos = [infile, outfile, "extra", "more"]
    opts = []
    keys = list(table)
    k = rng.choice([0, 1, 1, 2, 2, 3, 4, 6])
    for _ in range(k):
        flags = rng.choice(keys)
        flag = rng.choice(flags)
        kw, typ = table[flags]
        if typ in ("flag", "count"):
            opts.append([flag])
        elif kw == "method":
            opts.append([flag, rng.choice(METHODS + METHODS + ["foo", "Variational_gamma"])])
        else:
            opts.append([flag, rand_value(rng, typ)])
    if rng.random() < 0.25 and opts:
        # repeat one option with another value: last one wins
        o = rng.choice(opts)
        if len(o) == 2:
            kw, typ = lookup(table, o[0])
            flags = [f for f in table if o[0] in f][0]
            opts.append([rng.choice(flags), rng.choice(METHODS) if kw == "method" else rand_value(rng, typ)])
    if rng.random() < 0.03:
        opts.append(["--no-such-option", "1"])
    if rng.random() < 0.03 and opts:
        opts.append([rng.choice([f for f in table if table[f][1] not in ("flag", "count")])[0]])   # missing argument
        tail_missing = True
    else:
        tail_missing = False
    if not tail_missing:
        rng.shuffle(opts)
    flat = [t for o in opts for t in o]
    where = rng.random()
    if tail_missing or where < 0.5:
        return [sub] + pos + flat
    if where < 0.85:
        return [sub] + flat + pos
    cut = rng.randrange(len(opts) + 1)
    return [sub] + [t for o in opts[:cut] for t in o] + pos + [t for o in opts[cut:] for t in o]


def cstr(s):
    return '"' + s.replace('"', '""') + '"'


def model_outcomes(ctx, argvs):
    out = []
    for i in range(0, len(argvs), 250):
        chunk = argvs[i:i + 250]
        body = "From Coq Require Import String.\nOpen Scope string_scope.\nDefinition cases := [%s].\nEval vm_compute in cases.\n" % ";\n ".join(
            "cli_main cli [%s]" % "; ".join(cstr(t) for t in a) for a in chunk)
        res = ctx.coq_eval(body, requires=("model.Cli", "gen.CliGen"), tag="cli")
        out += res[0]
    return [norm_model(o) for o in out]


def unq(x):
    assert isinstance(x, tuple) and x[0] == "sym", x
    s = x[1]
    assert s.startswith('"') and s.endswith('"'), s
    return s[1:-1].replace('""', '"')


def mval(v):
    if v == ("sym", "VNone"):
        return ("none",)
    if v[0] == "VBool":
        return ("bool", bool(v[1]))
    if v[0] == "VCount":
        return ("count", int(v[1]))
    if v[0] == "VStr":
        return ("str", unq(v[1]))
    if v[0] == "VFloatOf":
        return ("float", float(unq(v[1])))
    if v[0] == "VIntOf":
        return ("int", int(unq(v[1])))
    raise ValueError(v)


def norm_model(o):
    if o == ("sym", "ExitError"):
        return ("error",)
    if o == ("sym", "ExitOk"):
        return ("exit0",)
    assert o[0] == "Call", o
    api = unq(o[1])
    return ("call", api, mval(o[2]), mval(o[3]), {unq(k): mval(v) for k, v in o[4]})


def pval(x):
    if x is None:
        return ("none",)
    if isinstance(x, bool):
        return ("bool", x)
    if isinstance(x, int):
        return ("int", x)
    if isinstance(x, float):
        return ("float", x)
    if isinstance(x, str):
        return ("str", x)
    return ("other", repr(x))


def same_val(a, b):
    if a[0] == "float" and b[0] == "float":
        return (math.isnan(a[1]) and math.isnan(b[1])) or (a[1] == b[1] and math.copysign(1, a[1]) == math.copysign(1, b[1]))
    return a == b


def norm_impl(status, exc, calls, argv):
    if calls:
        name, a, kw = calls[0]
        if status != 0 or len(calls) != 1:
            return ("call-but-status", status, exc, len(calls))
        return ("call", name, None, None, {k: pval(v) for k, v in kw.items()})
    if status == 0:
        return ("exit0",)
    return ("error",)


def plumbing(ctx, n, model_ok):
    from vlib import gen
    infile = os.path.join(ctx.work, "in.trees")
    outfile = os.path.join(ctx.work, "out_plumb.trees")
    ts = date_input(ctx.rng)
    ts.dump(infile)
    argvs = [rand_argv(ctx.rng, infile, outfile) for _ in range(n)]
    impl = []
    for a in argvs:
        if os.path.exists(outfile):
            os.remove(outfile)
        status, exc, calls = run_cli_recorded(a, ts)
        impl.append((norm_impl(status, exc, calls, a), os.path.exists(outfile), exc))
    model = model_outcomes(ctx, argvs) if model_ok else [None] * n
    for a, (im, wrote, exc), mo in zip(argvs, impl, model):
        short = [t.replace(ctx.work + "/", "") for t in a]
        ctx.case({"argv": short, "impl": im[0]}, nontrivial=len(a) > 3, kind="plumb:" + im[0])
        if mo is None:
            continue
        ok = mo[0] == im[0]
        if ok and mo[0] == "call":
            ok = mo[1] == im[1] and set(mo[4]) == set(im[4]) and all(same_val(mo[4][k], im[4][k]) for k in mo[4]) \
                and mo[2] == ("str", infile) and mo[3] == ("str", outfile)
        ctx.corr("cli_main", ok, "argv %r: model %r, implementation %r (%s)" % (short, mo, im, exc),
                 replay={"argv": short, "model": repr(mo), "impl": repr(im)})
        # keywords the command line did not set must carry None or the API's own default
        if im[0] == "call":
            table = DATE_MAP if im[1] == "date" else PRE_MAP
            given = set()
            for t in a:
                lk = lookup(table, t)
                if lk and lk[0]:
                    given.add(lk[0])
            for k, v in im[4].items():
                if k in given or v == ("none",):
                    continue
                dv = api_default(k)
                if dv is None or not same_val(pval(dv), v if v[0] != "int" or not isinstance(dv, float) else ("float", float(v[1]))):
                    ctx.oracle_fail("default-differs|%s|%s" % (im[1], k),
                                    "argv %r: keyword %s was not given but the API receives %r (API default %r)" % (
                                        short, k, v, dv), {"kind": "plumbing", "argv": short})
        # written output iff a call happened
        if (im[0] == "call") != wrote:
            ctx.oracle_fail("output-file|%s|wrote=%s" % (im[0], wrote),
                            "argv %r: outcome %s but output file written=%s" % (short, im[0], wrote),
                            {"kind": "plumbing", "argv": short})


# ------------------------------------------------------------------ inputs for the differential oracle
def date_input(rng):
    import msprime
    for _ in range(50):
        seed = rng.randrange(1, 2**31 - 1)
        ts = msprime.sim_ancestry(rng.randint(3, 5), ploidy=1, sequence_length=60, recombination_rate=0.03,
                                  random_seed=seed, population_size=1)
        ts = msprime.sim_mutations(ts, rate=0.08, random_seed=seed)
        if ts.num_trees > 1 and ts.num_mutations > 5:
            break
    return exotic(rng, ts)


def exotic(rng, ts):
    """gen.exotic decorations on ~40% of the inputs (CLI and API read the same file, so every kind applies)"""
    from vlib import gen
    if rng.random() < 0.4:
        try:
            ts, _kinds = gen.exotic(rng, ts, p=0.35)
        except Exception:   # noqa: BLE001
            pass
    return ts


def preprocess_input(rng, scale=None):
    """flanks before the first / after the last site, gaps between sites, disjoint nodes.
    With scale=4000 the sequence is 4 Mb with one site-free stretch of 0.3-0.8 Mb and one of
    1.2-1.6 Mb, so that the default minimum_gap (1 Mb) matters."""
    import msprime
    for _ in range(50):
        seed = rng.randrange(1, 2**31 - 1)
        ts = msprime.sim_ancestry(rng.randint(3, 6), ploidy=1, sequence_length=1000, recombination_rate=0.004,
                                  random_seed=seed, population_size=1)
        ts = msprime.sim_mutations(ts, rate=0.012, random_seed=seed)
        a = rng.randint(100, 200)
        b = a + rng.randint(80, 200)           # smaller gap
        c = rng.randint(b + 60, 520)
        d = c + rng.randint(300, 400)          # bigger gap
        tables = ts.dump_tables()
        keep = {s.id for s in ts.sites() if 40 <= s.position < 960 and not (a <= s.position < b)
                and not (c <= s.position < d)}
        tables.delete_sites([s.id for s in ts.sites() if s.id not in keep])
        ts = tables.tree_sequence()
        if ts.num_sites >= 5 and ts.num_trees >= 3:
            break
    ts = exotic(rng, ts)
    if scale:
        tables = ts.dump_tables()
        tables.sequence_length = ts.sequence_length * scale
        tables.edges.left = tables.edges.left * scale
        tables.edges.right = tables.edges.right * scale
        tables.sites.position = tables.sites.position * scale
        ts = tables.tree_sequence()
    return ts


def tables_equal(t1, t2):
    try:
        t1.assert_equals(t2, ignore_provenance=True)
        return True, ""
    except AssertionError as e:
        return False, str(e)[:300]


def prov_params(ts):
    rec = json.loads(ts.provenance(ts.num_provenances - 1).record)
    return rec.get("parameters", {})


def differential(ctx, sub, opts, infile, outfile, ts):
    """one CLI-vs-API comparison; opts = list of (flag, value or None)"""
    import tskit
    import tsdate
    table = DATE_MAP if sub == "date" else PRE_MAP
    argv = [sub, infile, outfile] + [t for f, v in opts for t in ([f] if v is None else [f, v])]
    short = [t.replace(ctx.work + "/", "") for t in argv]
    if os.path.exists(outfile):
        os.remove(outfile)
    kw = api_kwargs(table, opts)
    status, exc = run_cli(argv)
    wrote = os.path.exists(outfile)
    rp = {"kind": "differential", "argv": short, "ts": __import__("vlib.gen", fromlist=["x"]).ts_tables_dict(ts)}
    given = sorted({lookup(table, f)[0] for f, _v in opts if lookup(table, f)[0]})
    label = "%s|%s" % (sub, ",".join(given))
    if kw is None:
        # a boolean spelling that is neither true nor false: the command line itself is invalid
        if status == 0 or wrote:
            ctx.oracle_fail("invalid-bool-accepted|" + label, "argv %r accepted" % short, rp)
        return "invalid"
    api_exc = None
    api_ts = None
    try:
        with warnings.catch_warnings():
            warnings.simplefilter("ignore")
            with np.errstate(all="ignore"), contextlib.redirect_stderr(io.StringIO()):
                if sub == "date":
                    k2 = dict(kw)
                    mr = k2.pop("mutation_rate", None)
                    api_ts = tsdate.date(ts, mutation_rate=mr, **k2)
                else:
                    api_ts = tsdate.preprocess_ts(ts, **kw)
    except BaseException as e:   # noqa: BLE001
        if isinstance(e, (KeyboardInterrupt, MemoryError)):
            raise
        api_exc = "%s: %s" % (type(e).__name__, str(e)[:120])
    method = kw.get("method", "variational_gamma") if sub == "date" else "-"
    if api_exc is not None:
        if (status == 0 and wrote and sub == "date" and method == "variational_gamma" and "eps" in kw
                and api_exc.startswith("ValueError: The `eps` parameter has been disambiguated")):
            # K6 exactly: -e accepted and ignored.  Is it ONLY ignored?  compare with the call without eps
            k2 = {k: v for k, v in kw.items() if k != "eps"}
            mr = k2.pop("mutation_rate", None)
            try:
                with warnings.catch_warnings():
                    warnings.simplefilter("ignore")
                    with np.errstate(all="ignore"), contextlib.redirect_stderr(io.StringIO()):
                        ref = tsdate.date(ts, mutation_rate=mr, **k2)
                same, why = tables_equal(tskit.load(outfile).tables, ref.tables)
            except BaseException as e:   # noqa: BLE001
                same, why = False, "the call without eps raises %s" % type(e).__name__
            ctx.oracle_fail("epsilon-ignored|variational_gamma|output-equals-call-without-eps=%s" % same,
                            "argv %r: -e/--epsilon is accepted and ignored for variational_gamma, whose API "
                            "rejects eps (%s)" % (short, why), rp)
            return "k6"
        if status == 0 or wrote:
            ctx.oracle_fail("cli-accepts-api-rejects|%s|method=%s|api=%s" % (label, method, api_exc.split(":")[0]),
                            "argv %r: the command succeeded (status %s, output written=%s) but the Python call "
                            "with the same option values %r raises %s" % (short, status, wrote, kw, api_exc), rp)
        return "both-reject" if status != 0 else "k6"
    if status != 0 or not wrote:
        ctx.oracle_fail("cli-rejects-api-accepts|%s|method=%s" % (label, method),
                        "argv %r: the command failed (%s) but the Python call with %r succeeds" % (short, exc, kw), rp)
        return "cli-rejects"
    cli_ts = tskit.load(outfile)
    ok, why = tables_equal(cli_ts.tables, api_ts.tables)
    if not ok:
        ctx.oracle_fail("output-differs|%s|method=%s" % (label, method),
                        "argv %r: output differs from the Python call %r: %s" % (short, kw, why), rp)
        return "differs"
    if cli_ts.num_provenances != api_ts.num_provenances:
        ctx.oracle_fail("provenance-count|%s" % label, "argv %r: %d provenance records vs %d" % (
            short, cli_ts.num_provenances, api_ts.num_provenances), rp)
        return "differs"
    pc, pa = prov_params(cli_ts), prov_params(api_ts)
    for k in given + ["command"]:
        if k in pa and pc.get(k) != pa.get(k) and not (isinstance(pa.get(k), float) and pa.get(k) != pa.get(k)):
            ctx.oracle_fail("provenance-parameter|%s|%s" % (label, k),
                            "argv %r: provenance records %s=%r, the Python call records %r" % (short, k, pc.get(k), pa.get(k)), rp)
            return "differs"
    return "same"


DATE_VALUES = {
    "mutation_rate": ["0.05", "1e-3", "0.5"],
    "recombination_rate": ["1e-8"],
    "eps": ["1e-6", "1e-3"],
    "min_branch_length": ["1e-6", "0.01", "0.5"],
    "rescaling_intervals": ["2", "5", "0"],          # 0 is falsy: must still reach the API as 0
    "max_iterations": ["1", "3", "0"],               # 0: the API raises ValueError, so must the command
    "num_threads": ["1", "0"],
    "population_size": ["1", "100", "0.5"],
    "probability_space": ["linear", "logarithmic", "foo"],
}
PRE_VALUES = {
    "minimum_gap": ["30", "100", "5", "1000000", "0.5", "500000", "2e5"],
    "erase_flanks": TRUE_WORDS[:4] + FALSE_WORDS[:4] + ["maybe"],
    "split_disjoint": TRUE_WORDS[:4] + FALSE_WORDS[:4] + ["2"],
}


def opt_for(rng, table, kw, values, val=None):
    flags = [f for f, (k, _t) in table.items() if k == kw][0]
    typ = table[flags][1]
    flag = rng.choice(flags)
    if typ in ("flag", "count"):
        return (flag, None)
    return (flag, val if val is not None else rng.choice(values[kw]))


def base_opts(rng, method):
    o = [("--method", method), (rng.choice(["-m", "--mutation-rate"]), rng.choice(["0.05", "0.02"]))]
    if method != "variational_gamma":
        o.append((rng.choice(["-n", "--population_size"]), rng.choice(["1", "10"])))
    else:
        o.append(("--max-iterations", rng.choice(["1", "2"])))
    return o


def oracle_runs(ctx, n_random):
    infile = os.path.join(ctx.work, "in_date.trees")
    prefile = os.path.join(ctx.work, "in_pre.trees")
    outfile = os.path.join(ctx.work, "out.trees")
    rng = ctx.rng
    stats = {}

    def go(sub, opts, inf, ts, nontrivial=True):
        r = differential(ctx, sub, opts, inf, outfile, ts)
        stats[r] = stats.get(r, 0) + 1
        ctx.case({"sub": sub, "opts": [list(o) for o in opts], "result": r}, nontrivial=nontrivial and bool(opts),
                 kind="diff:%s/%s" % (sub, r))

    ts = date_input(rng)
    ts.dump(infile)
    # defaults, each method
    go("date", [("-m", "0.05")], infile, ts)
    go("date", [], infile, ts)
    for m in METHODS:
        b = base_opts(rng, m)
        go("date", b, infile, ts)
        # every single option x every value on top of a working base
        for kw, vals in DATE_VALUES.items():
            for v in vals:
                go("date", b + [opt_for(rng, DATE_MAP, kw, DATE_VALUES, v)], infile, ts)
        go("date", b + [opt_for(rng, DATE_MAP, "progress", {})], infile, ts)
        go("date", b + [("-v", None)], infile, ts)
        go("date", b + [("-v", None), ("--verbosity", None)], infile, ts)
        # every pair of options
        kws = list(DATE_VALUES) + ["progress"]
        for i in range(len(kws)):
            for j in range(i + 1, len(kws)):
                if rng.random() < (1.0 if ctx.tier == "thorough" else 0.35):
                    go("date", b + [opt_for(rng, DATE_MAP, kws[i], DATE_VALUES), opt_for(rng, DATE_MAP, kws[j], DATE_VALUES)],
                       infile, ts)
    # without a base: single options alone (method default, no rate...)
    for kw, vals in DATE_VALUES.items():
        go("date", [opt_for(rng, DATE_MAP, kw, DATE_VALUES)], infile, ts)
    # random larger subsets on fresh inputs
    for i in range(n_random):
        if i % 10 == 0:
            ts = date_input(rng)
            ts.dump(infile)
        m = rng.choice(METHODS)
        b = base_opts(rng, m) if rng.random() < 0.8 else []
        extra = [opt_for(rng, DATE_MAP, kw, DATE_VALUES) for kw in rng.sample(list(DATE_VALUES) + ["progress"], rng.randint(1, 4))]
        o = b + extra
        if rng.random() < 0.3:
            rng.shuffle(o)
        go("date", o, infile, ts)
    # preprocess: the whole grid of the three options on several inputs
    for rep in range(3 if ctx.tier == "quick" else 12):
        pts = preprocess_input(rng, scale=4000 if rep % 3 == 0 else None)
        pts.dump(prefile)
        go("preprocess", [], prefile, pts)
        for kw, vals in PRE_VALUES.items():
            for v in vals:
                go("preprocess", [opt_for(rng, PRE_MAP, kw, PRE_VALUES, v)], prefile, pts)
        for g in ["30", "100", "1000000"]:
            for ef in ["True", "False", "0", "yes"]:
                for sd in ["true", "false", "1", "No"]:
                    if rep == 0 or rng.random() < 0.3:
                        o = [opt_for(rng, PRE_MAP, "minimum_gap", PRE_VALUES, g),
                             opt_for(rng, PRE_MAP, "erase_flanks", PRE_VALUES, ef),
                             opt_for(rng, PRE_MAP, "split_disjoint", PRE_VALUES, sd)]
                        rng.shuffle(o)
                        go("preprocess", o, prefile, pts)
        go("preprocess", [("--erase-flanks", "True"), ("--trim_telomeres", "False")], prefile, pts)
        go("preprocess", [("-v", None), ("--split-disjoint", "False")], prefile, pts)
    ctx.notes["differential"] = stats
    # bad input file: must exit non-zero and write nothing
    bad = os.path.join(ctx.work, "bad.trees")
    with open(bad, "w") as f:
        f.write("this is not a tree sequence")
    for sub in ("date", "preprocess"):
        if os.path.exists(outfile):
            os.remove(outfile)
        status, exc = run_cli([sub, bad, outfile])
        if status == 0 or os.path.exists(outfile):
            ctx.oracle_fail("bad-file-accepted|" + sub, "a file that is not a tree sequence was accepted", None)


def run(ctx, model_ok=True):
    model_ok = model_ok and _REGEN_OK
    import time
    t00 = time.time()
    if model_ok:
        # is the known hole K6 still open in the regenerated table?  (recorded, not required)
        try:
            res = ctx.coq_eval("Eval vm_compute in (k6_open cli).\n", requires=("model.Cli", "gen.CliGen", "proofs.CliFacts"),
                               tag="k6")
            ctx.notes["k6_open_in_table"] = bool(res[0])
        except Exception as e:   # noqa: BLE001
            ctx.notes["k6_open_in_table"] = "n/a: " + str(e)[-200:]
    ctx.notes["seconds_k6"] = round(time.time() - t00, 1)
    import time
    t0 = time.time()
    plumbing(ctx, ctx.n(500, 3000), model_ok)
    ctx.notes["seconds_plumbing"] = round(time.time() - t0, 1)
    t0 = time.time()
    oracle_runs(ctx, ctx.n(60, 600))
    ctx.notes["seconds_differential"] = round(time.time() - t0, 1)


def search(ctx):
    oracle_runs(ctx, ctx.n(300, 1500))


def replay(ctx, data):
    from vlib import gen
    rp = data.get("case") or {}
    if rp.get("kind") != "differential":
        print(json.dumps(rp, indent=1)[:2000])
        return True
    ts = gen.ts_from_dict(rp["ts"])
    argv = rp["argv"]
    sub = argv[0]
    infile = os.path.join(ctx.work, "replay_in.trees")
    outfile = os.path.join(ctx.work, "replay_out.trees")
    ts.dump(infile)
    table = DATE_MAP if sub == "date" else PRE_MAP
    toks = argv[3:]
    opts = []
    i = 0
    while i < len(toks):
        kw, typ = lookup(table, toks[i])
        if typ in ("flag", "count"):
            opts.append((toks[i], None))
            i += 1
        else:
            opts.append((toks[i], toks[i + 1]))
            i += 2
    before = len(ctx.oracle_fails)
    differential(ctx, sub, opts, infile, outfile, ts)
    return len(ctx.oracle_fails) == before and not ctx.known_hits
