"""Shared by C18 / C19 / C06: everything about tsdate/approx.py and tsdate/hypergeo.py.

* `regen(ctx)`        run tools/translate.py (fail closed) -> coq/gen/*.v
* `Twin`              the repo's approx.py / hypergeo.py executed as plain Python (decorators
                      stripped from the AST, nothing else changed) with exp/log/lgamma/tan/sin
                      wrapped so that every special-function value the code consumes is
                      RECORDED; the recorded table is what the binary64 instance of the
                      translated text uses for those functions inside Coq
* `correspondence`    translated Gallina (PrimFloat, vm_compute) vs implementation on
                      generated arguments
* generators of cavity / edge parameters, mpmath references
"""
import ast
import math
import os
import sys
import types

import numpy as np

from vlib.coqfmt import cfloat

REPO = os.environ.get("VERIF_REPO", "/repo")
IDS = {"exp": 0, "log": 1, "lgamma": 2, "tan": 3, "sin": 4, "log1p": 8, "expm1": 9}
NAN = float("nan")
INF = float("inf")

_INFO = None


def regen(ctx=None):
    """regenerate coq/gen from the repo under test; raises translate.Reject (fail closed)"""
    global _INFO
    import translate
    _INFO = translate.regen(REPO)
    if ctx is not None:
        ctx.notes["translated_functions"] = sum(len(v) for v in _INFO["functions"].values())
        ctx.notes["asserts_kept_as_checks"] = _INFO["asserts"]
        ctx.notes["source_sha256"] = _INFO["sha256"]
    return _INFO


def info():
    return _INFO or regen()


class phase:
    """with phase(ctx, "name"): ...   -- wall and CPU seconds (this process + children) into the evidence notes"""

    def __init__(self, ctx, name):
        self.ctx, self.name = ctx, name

    def __enter__(self):
        import resource
        import time
        self.t = time.time()
        self.c = sum(resource.getrusage(w).ru_utime + resource.getrusage(w).ru_stime
                     for w in (resource.RUSAGE_SELF, resource.RUSAGE_CHILDREN))

    def __exit__(self, *a):
        import resource
        import time
        c = sum(resource.getrusage(w).ru_utime + resource.getrusage(w).ru_stime
                for w in (resource.RUSAGE_SELF, resource.RUSAGE_CHILDREN))
        self.ctx.notes.setdefault("phase_seconds_wall_cpu", {})[self.name] = [round(time.time() - self.t, 1), round(c - self.c, 1)]


# ------------------------------------------------------------------ the traced twin
class Recorder:
    def __init__(self):
        self.tb = []
        self.tb2 = []       # calls of the untranslated hypergeo functions: (id, a, x, value)
        self.on = True

    def rec(self, name, x, v):
        if self.on:
            self.tb.append((IDS[name], float(x), float(v)))
        return v


def c_exp(x):
    x = float(x)
    try:
        return math.exp(x)
    except OverflowError:
        return INF


def c_log(x):
    x = float(x)
    if x != x:
        return NAN
    if x == 0.0:
        return -INF
    if x < 0.0:
        return NAN
    return math.log(x)


def c_lgamma(x):
    x = float(x)
    try:
        return math.lgamma(x)
    except (ValueError, OverflowError):
        return INF


def c_log1p(x):
    x = float(x)
    if x != x or x < -1.0:
        return NAN
    if x == -1.0:
        return -INF
    return math.log1p(x)


def c_expm1(x):
    x = float(x)
    try:
        return math.expm1(x)
    except OverflowError:
        return INF


def c_sqrt(x):
    x = float(x)
    if x != x or x < 0.0:
        return NAN
    return math.sqrt(x)


def c_tan(x):
    with np.errstate(all="ignore"):
        return float(np.tan(float(x)))


def c_sin(x):
    with np.errstate(all="ignore"):
        return float(np.sin(float(x)))


class NpShim:
    """numpy as seen by the twin: same module, scalar log/exp/sqrt/tan/sin with C semantics and recorded"""

    def __init__(self, r):
        self._r = r

    def __getattr__(self, k):
        return getattr(np, k)

    def log(self, x):
        return self._r.rec("log", x, c_log(x))

    def exp(self, x):
        return self._r.rec("exp", x, c_exp(x))

    def sqrt(self, x):
        return c_sqrt(x)

    def tan(self, x):
        return self._r.rec("tan", x, c_tan(x))

    def sin(self, x):
        return self._r.rec("sin", x, c_sin(x))

    def log1p(self, x):
        return self._r.rec("log1p", x, c_log1p(x))

    def expm1(self, x):
        return self._r.rec("expm1", x, c_expm1(x))

    def power(self, x, k):
        with np.errstate(all="ignore"):
            return float(np.power(float(x), k))

    def abs(self, x):
        return abs(float(x))


class Twin:
    """approx.py and hypergeo.py of the repo under test as plain Python modules"""

    def __init__(self, repo=None):
        repo = repo or REPO
        self.r = Recorder()
        self.hypergeo = self._load(repo, "hypergeo")
        self.approx = self._load(repo, "approx")
        self.approx.hypergeo = self.hypergeo
        r = self.r
        shim = NpShim(r)
        for m in (self.hypergeo, self.approx):
            d = m.__dict__
            d["np"] = shim
            if "exp" in d:
                d["exp"] = lambda x: r.rec("exp", x, c_exp(x))
            if "log" in d:
                d["log"] = lambda x: r.rec("log", x, c_log(x))
            if "lgamma" in d:
                d["lgamma"] = lambda x: r.rec("lgamma", x, c_lgamma(x))
            if "sqrt" in d:
                d["sqrt"] = c_sqrt
            if "log1p" in d:
                d["log1p"] = lambda x: r.rec("log1p", x, c_log1p(x))
            if "expm1" in d:
                d["expm1"] = lambda x: r.rec("expm1", x, c_expm1(x))
        # the untranslated functions approx.py calls in hypergeo.py: recorded with their results
        inv0, der0 = self.hypergeo._gammainc_inv, self.hypergeo._gammainc_der

        def inv(a, x):
            with np.errstate(all="ignore"):
                v = float(inv0(float(a), float(x)))
            r.tb2.append((5, float(a), float(x), v))
            return v

        def der(a, x):
            r.on = False             # its own log / exp / lgamma calls are not the model's business
            try:
                v = float(der0(float(a), float(x)))
            except AssertionError:
                r.tb2.append((7, float(a), float(x), 0.0))
                raise
            finally:
                r.on = True
            r.tb2.append((6, float(a), float(x), v))
            return v
        self.hypergeo._gammainc_inv = inv
        self.hypergeo._gammainc_der = der

    @staticmethod
    def _load(repo, name):
        path = os.path.join(repo, "tsdate", name + ".py")
        tree = ast.parse(open(path).read())
        for n in ast.walk(tree):
            if isinstance(n, ast.FunctionDef):
                n.decorator_list = []
        mod = types.ModuleType("tsdate._twin_" + name)
        mod.__package__ = "tsdate"
        mod.__file__ = path
        exec(compile(tree, path, "exec"), mod.__dict__)
        return mod

    def fn(self, pyname):
        m = self.approx if info()["meta"][pyname]["module"] == "approx" else self.hypergeo
        return getattr(m, pyname)

    def call(self, pyname, args):
        """-> (normalised output, table of recorded special-function values)"""
        self.r.tb = []
        self.r.tb2 = []
        f = self.fn(pyname)
        out = run_py(f, args)
        if info()["meta"][pyname].get("uses_ext"):
            return out, (list(self.r.tb), list(self.r.tb2))
        return out, list(self.r.tb)


def to_py_args(args):
    return [np.array(a, dtype=np.float64) if isinstance(a, (tuple, list)) else float(a) for a in args]


def norm(v):
    """implementation value -> nested tuples of Python floats / bool"""
    if isinstance(v, (bool, np.bool_)):
        return bool(v)
    if isinstance(v, (tuple, list)):
        return tuple(norm(x) for x in v)
    if isinstance(v, np.ndarray):
        return tuple(float(x) for x in v)
    return float(v)


def run_py(f, args):
    try:
        with np.errstate(all="ignore"):
            return norm(f(*to_py_args(args)))
    except AssertionError:
        return "AssertionError"
    except ZeroDivisionError:
        return "ZeroDivisionError"
    except RecursionError:
        return "RecursionError"
    except Exception as e:      # KLMinimizationFailedError, numba errors, ...
        return type(e).__name__


def real_fn(pyname):
    import tsdate.approx
    import tsdate.hypergeo
    m = tsdate.approx if hasattr(tsdate.approx, pyname) else tsdate.hypergeo
    return getattr(m, pyname)


# ------------------------------------------------------------------ Coq side
ERR = {"EAssert": "AssertionError", "EKLFail": "KLMinimizationFailedError", "EFuel": "RecursionError"}


def coq_arg(a):
    if isinstance(a, (tuple, list)):
        return "(" + ", ".join(cfloat(x) for x in a) + ")"
    return cfloat(a)


def coq_table(tb):
    return "[" + "; ".join("((%d)%%Z, %s, %s)" % (i, cfloat(x), cfloat(v)) for i, x, v in tb) + "]"


def coq_table2(tb2):
    return "[" + "; ".join("((%d)%%Z, %s, %s, %s)" % (i, cfloat(a), cfloat(x), cfloat(v)) for i, a, x, v in tb2) + "]"


def coq_term(pyname, args, tb):
    m = info()["meta"][pyname]
    a = " ".join(coq_arg(x) for x in args)
    if m.get("uses_ext"):
        tb, tb2 = tb
        show = {(False, False): "", (True, False): "show_n ", (False, True): "show_e ", (True, True): "show_en "}[
            (m["can_nan"], m["can_raise"])]
        return "(let F := FF %s in %s(%s FNum F (hypfns FNum F) (EF %s) %s))" % (
            coq_table(tb), show, m["coq"], coq_table2(tb2), a)
    show = {(False, False): "", (True, False): "show_n ", (False, True): "show_e ", (True, True): "show_en "}[
        (m["can_nan"], m["can_raise"])]
    if m["module"] == "approx":
        return "(let F := FF %s in %s(%s FNum F (hypfns FNum F) %s))" % (coq_table(tb), show, m["coq"], a)
    return "(%s(%s FNum (FF %s) %s))" % (show, m["coq"], coq_table(tb), a)


def from_coq(v):
    """parsed `Eval` value -> same normal form as `norm` / exception names / 'nan'"""
    if v is None:
        return "nan"
    if isinstance(v, tuple) and v and isinstance(v[0], str):
        if v[0] in ("Some", "inl"):
            return from_coq(v[1])
        if v[0] == "inr":
            return ERR.get(v[1][1], "Err")
        if v[0] == "sym":
            return v[1]
    if isinstance(v, tuple):
        return tuple(from_coq(x) for x in v)
    if isinstance(v, bool):
        return v
    return float(v)


def run_model(ctx, batches, tag="approx"):
    """batches: {pyname: [(args, table), ...]} -> {pyname: [normalised model outputs]}"""
    names = [n for n in batches if batches[n]]
    body = []
    for n in names:
        terms = [coq_term(n, a, tb) for a, tb in batches[n]]
        body.append("Definition cases_%s := [%s].\nEval vm_compute in cases_%s.\n" % (
            info()["meta"][n]["coq"], ";\n ".join(terms), info()["meta"][n]["coq"]))
    res = ctx.coq_eval("\n".join(body), requires=("lib.Num", "model.ApproxBase", "gen.HypergeoGen", "gen.ApproxGen"),
                       tag=tag, timeout=900)
    out = {}
    for n, r in zip(names, res):
        out[n] = [from_coq(x) for x in r]
    return out


def flat(v):
    if isinstance(v, tuple):
        for x in v:
            yield from flat(x)
    else:
        yield v


def close(a, b, rel, abs_=0.0):
    if isinstance(a, bool) or isinstance(b, bool):
        return a == b
    if a != a and b != b:
        return True
    if a == b:
        return True
    if a != a or b != b or math.isinf(a) or math.isinf(b):
        return False
    return abs(a - b) <= rel * max(abs(a), abs(b)) + abs_


# layout of the outputs, for the cancellation-aware tolerance: l = log normaliser, m = mean,
# v = variance (computed as E[x^2] - mean^2: inherits an absolute error of a few ulp of mean^2),
# p = probability, s = shape - 1 (= mean^2/variance - 1), r = rate, x = other
LAYOUT = {
    "moments": "lmvmv", "unphased_moments": "lmvmv", "rootward_moments": "lmv", "leafward_moments": "lmv",
    "twin_moments": "lmv", "sideways_moments": "lmv", "mutation_moments": "mv",
    "mutation_rootward_moments": "mv", "mutation_leafward_moments": "mv",
    "mutation_unphased_moments": "pmv", "mutation_twin_moments": "pmv", "mutation_sideways_moments": "pmv",
    "mutation_edge_moments": "mv", "mutation_block_moments": "pmv",
}


def same_output(pyname, model, impl, rel=1e-12, amp=64.0):
    """model output vs implementation output (both normalised).  -> (ok, why)"""
    if impl in ("ZeroDivisionError", "OverflowError"):
        # float division by zero raises in Python and in numba (error_model='python'); `x ** k`
        # overflow raises in pure Python only.  The model computes IEEE inf/nan there.
        return None, "implementation raises %s (IEEE inf/nan in the model); not compared" % impl
    if isinstance(model, str) or isinstance(impl, str):
        if model == "nan":
            first = next(flat(impl)) if not isinstance(impl, str) else None
            ok = first is not None and first != first
            return ok, "model skips (Nan), implementation returned %r" % (impl,)
        return model == impl, "model %r, implementation %r" % (model, impl)
    fm, fi = list(flat(model)), list(flat(impl))
    if len(fm) != len(fi):
        return False, "shape: model %r, implementation %r" % (model, impl)
    lay = LAYOUT.get(pyname)
    if pyname.endswith("_projection"):
        lay = "x" + "sr" * ((len(fm) - 1) // 2)
    eps = 2.0 ** -52
    for k, (a, b) in enumerate(zip(fm, fi)):
        kind = lay[k] if lay and k < len(lay) else "x"
        abs_ = 0.0
        if kind == "v" and k > 0:
            mn = fi[k - 1]
            if mn == mn and not math.isinf(mn):
                abs_ = amp * eps * mn * mn     # (float * float overflows to inf, never raises)
        if kind == "l":
            abs_ = 1e-9
        r = rel
        if kind in "sr" and not (isinstance(a, bool) or isinstance(b, bool)):
            # natural parameters come from mean^2/variance: relative error of the variance
            r = 1e-6
        if not close(a, b, r, abs_):
            return False, "component %d (%s): model %r, implementation %r" % (k, kind, a, b)
    return True, ""


# ------------------------------------------------------------------ generators
def lu(rng, lo, hi):
    return math.exp(rng.uniform(math.log(lo), math.log(hi)))


WILD = [0.0, -0.0, 1.0, -1.0, 0.5, 2.0, 1e-300, 1e300, INF, -INF, NAN]


def wild(rng):
    u = rng.random()
    if u < 0.25:
        return rng.choice(WILD)
    x = lu(rng, 1e-12, 1e12)
    return -x if rng.random() < 0.3 else x


def gen_edge(rng, min_shape=0.05, coherent_mu=False):
    """a coherent (cavity, edge) situation: one time scale tau, shapes, rates ~ shape/tau, counts"""
    tau = lu(rng, 1e-4, 1e8)
    def shape():
        u = rng.random()
        if u < 0.15:
            return float(rng.randint(1, 40))
        if u < 0.25:
            return 1.0
        return lu(rng, min_shape, 5e3)
    def rate(a):
        return a / tau * lu(rng, 0.3, 3.0)
    u = rng.random()
    if u < 0.3:
        y = 0.0
    elif u < 0.6:
        y = float(rng.randint(1, 30))
    elif u < 0.8:
        y = lu(rng, 1e-3, 1e4)
    else:
        y = float(rng.randint(1, 30)) * rng.uniform(0.05, 1.0)      # damped likelihood: fractional counts
    if coherent_mu:
        # likelihood and cavities speak about the same time scale (within a factor 5), as in EP
        mu = (y + rng.random()) / tau * lu(rng, 0.2, 5.0)
    elif rng.random() < 0.8:
        mu = (y + rng.random()) / tau * lu(rng, 0.05, 20.0)
    else:
        mu = lu(rng, 1e-12, 1e-2) / tau
    a_i, a_j = shape(), shape()
    d = {"tau": tau, "a_i": a_i, "a_j": a_j, "b_i": rate(a_i), "b_j": rate(a_j), "y_ij": y, "mu_ij": mu}
    d["t_i"] = tau * lu(rng, 0.05, 20.0)
    d["t_j"] = 0.0 if rng.random() < 0.4 else d["t_i"] * rng.uniform(0.001, 0.999)
    return d


def gen_args(rng, pyname, tame=False):
    """arguments for one call of a translated function, by the role of each parameter.
    tame=True: only coherent situations (no zero / negative / huge / NaN arguments)"""
    m = info()["meta"][pyname]
    params = m["params"]
    if m["module"] == "hypergeo":
        return gen_hyp_args(rng, pyname)
    if pyname in ("approximate_gamma_mom", "approximate_log_moments", "_valid_moments"):
        if rng.random() < 0.25:
            return [wild(rng), wild(rng)]
        mean = lu(rng, 1e-8, 1e10)
        return [mean, mean * mean * lu(rng, 1e-6, 1e3)]
    if pyname == "approximate_gamma_kl":
        if rng.random() < 0.2:
            return [wild(rng), wild(rng)]
        x = lu(rng, 1e-8, 1e10)
        u = rng.random()
        gap = lu(rng, 1e-7, 1e-3) if u < 0.2 else lu(rng, 1e-3, 20.0)
        return [x, math.log(x) - gap]
    if pyname == "approximate_gamma_iqr":
        import scipy.special as sc
        q1, q2 = rng.choice([(0.25, 0.75), (0.05, 0.95), (0.4, 0.6), (0.1, 0.5)])
        cap = rng.choice([1000.0, 1000.0, 50.0])
        u = rng.random()
        if u < 0.15:
            return [wild(rng) if rng.random() < 0.5 else q1, q2, wild(rng), wild(rng), cap]
        al, be = lu(rng, 1e-2, 5e3), lu(rng, 1e-8, 1e8)
        x1, x2 = float(sc.gammaincinv(al, q1)) / be, float(sc.gammaincinv(al, q2)) / be
        if u < 0.25:
            x2 = x1
        elif u < 0.3:
            x1, x2 = x2, x1
        return [q1, q2, x1, x2, cap]
    if pyname == "_valid_gamma":
        return [wild(rng), wild(rng)] if rng.random() < 0.5 else [lu(rng, 1e-3, 1e4), lu(rng, 1e-9, 1e9)]
    if pyname in ("_valid_hyp1f1", "_valid_hyperu"):
        if rng.random() < 0.4:
            return [wild(rng) for _ in params]
        a = lu(rng, 1e-3, 1e4)
        b = a if rng.random() < 0.2 else a + lu(rng, 1e-3, 1e4) * rng.choice([1, 1, -0.5])
        return [a, b, wild(rng) if rng.random() < 0.5 else lu(rng, 1e-6, 1e6)]
    if pyname == "_valid_hyp2f1":
        if rng.random() < 0.3:
            return [wild(rng) for _ in params]
        z = rng.choice([1.0, 0.0, 0.5, -1.0, 1.0 - 1e-12, 1.0 + 1e-12, -lu(rng, 1e-6, 1e6), lu(rng, 1e-6, 2.0)])
        return [lu(rng, 1e-3, 1e4), lu(rng, 1e-3, 1e4), lu(rng, 1e-3, 1e4), z]
    mode_wild = (not tame) and rng.random() < 0.2
    d = gen_edge(rng, coherent_mu=tame)
    if pyname.endswith("_projection") and "pars_i" not in params and "pars_j" not in params:
        # mutation_edge_projection / mutation_block_projection (t_i, t_j)
        pass
    out = []
    for p in params:
        if p in ("pars_i", "pars_j"):
            s = "i" if p == "pars_i" else "j"
            v = (d["a_" + s] - 1.0, d["b_" + s])
            if mode_wild and rng.random() < 0.5:
                v = (wild(rng), wild(rng))
            out.append(v)
        elif p == "pars_ij":
            v = (d["y_ij"], d["mu_ij"])
            if mode_wild and rng.random() < 0.5:
                v = (wild(rng), wild(rng))
            out.append(v)
        elif p in d:
            v = d[p]
            if mode_wild and rng.random() < 0.4:
                v = wild(rng)
            out.append(v)
        else:
            out.append(wild(rng))
    if pyname in ("mutation_block_moments", "mutation_block_projection") and not mode_wild:
        out = [d["t_i"], d["t_i"] * lu(rng, 1e-3, 1e3)]
    if pyname in ("mutation_edge_moments", "mutation_edge_projection") and not mode_wild and out[1] == 0.0 \
            and rng.random() < 0.5:
        out[1] = out[0] * rng.uniform(0.0, 1.0)
    return out


THRESH = {"_digamma": [0.0, 1e-5, 8.5, 1.0, 7.5, 8.499999999999998, 8.500000000000002],
          "_trigamma": [0.0, 1e-4, 5.0, 1.0, 4.0, 4.999999999999999, 5.000000000000001]}


def gen_hyp_args(rng, pyname):
    if pyname in ("_digamma", "_trigamma"):
        u = rng.random()
        if u < 0.15:
            return [rng.choice(THRESH[pyname])]
        if u < 0.3:
            return [-lu(rng, 1e-6, 1e3)]
        if u < 0.35:
            return [wild(rng)]
        return [lu(rng, 1e-7, 1e9)]
    if pyname == "_betaln":
        return [lu(rng, 1e-6, 1e8), lu(rng, 1e-6, 1e8)] if rng.random() < 0.85 else [wild(rng), wild(rng)]
    if rng.random() < 0.12:
        n = 4 if pyname == "_hyp2f1_laplace" else 3
        return [wild(rng) for _ in range(n)]
    a = lu(rng, 1e-2, 1e4)
    if pyname == "_hyperu_laplace":
        b = a if rng.random() < 0.1 else a + lu(rng, 1e-3, 1e4)
        return [a, b, lu(rng, 1e-8, 1e8)]
    if pyname == "_hyp1f1_laplace":
        b = a + lu(rng, 1e-3, 1e4)
        x = rng.choice([0.0, lu(rng, 1e-6, 1e6), -lu(rng, 1e-6, 1e6)])
        return [a, b, x]
    if pyname == "_hyp2f1_laplace":
        b = lu(rng, 1e-2, 1e4)
        c = a + lu(rng, 1e-3, 1e4) if rng.random() < 0.9 else a
        x = rng.choice([0.0, -lu(rng, 1e-6, 1e6), lu(rng, 1e-6, 0.999), 1.0 - lu(rng, 1e-13, 1e-5),
                        -lu(rng, 1e5, 1e13), lu(rng, 1e-6, 0.999)])
        return [a, b, c, x]
    raise KeyError(pyname)


# ------------------------------------------------------------------ the correspondence
_TWIN = None


def twin():
    global _TWIN
    if _TWIN is None:
        _TWIN = Twin()
    return _TWIN


def jsonable(x):
    if isinstance(x, (tuple, list)):
        return [jsonable(y) for y in x]
    if isinstance(x, float) and (x != x or math.isinf(x)):
        return repr(x)
    return x


def correspondence(ctx, names, n_per_fn, extra=None, check_real=True):
    """translated text (binary64 inside Coq) vs the implementation, function by function.
    extra: {pyname: [args, ...]} cases to add (recorded from EP runs, corpus).  Returns
    {pyname: [(args, impl_out, model_out)]}"""
    tw = twin()
    batches, impl = {}, {}
    for n in names:
        cases = [gen_args(ctx.rng, n) for _ in range(n_per_fn)] + list((extra or {}).get(n, []))
        batches[n], impl[n] = [], []
        for a in cases:
            out, tb = tw.call(n, a)
            batches[n].append((a, tb))
            impl[n].append(out)
    model = run_model(ctx, batches)
    result = {}
    for n in names:
        f = real_fn(n) if check_real else None
        result[n] = []
        for (a, tb), io, mo in zip(batches[n], impl[n], model[n]):
            ok, why = same_output(n, mo, io)
            nontriv = not isinstance(io, str) and not (isinstance(mo, str))
            ctx.case({"fn": n, "args": jsonable(a), "impl": jsonable(io)}, nontrivial=nontriv,
                     kind=n + ("/value" if nontriv else "/" + (mo if isinstance(mo, str) else "value")))
            if ok is None:
                ctx.tally("zero-division-or-overflow-not-compared")
            else:
                ctx.corr("translated %s vs implementation" % n, ok, why,
                         replay={"fn": n, "args": jsonable(a), "impl": jsonable(io), "model": jsonable(mo)})
            if f is not None:
                ro = run_py(f, a)
                ok2 = twin_vs_real(io, ro)
                ctx.corr("traced twin of %s vs tsdate.%s" % (n, n), ok2,
                         "twin %r real %r" % (io, ro), replay={"fn": n, "args": jsonable(a)})
            result[n].append((a, io, mo))
    return result


def twin_vs_real(t, r):
    """the plain-Python twin (C semantics for math domain/overflow errors) vs the real function"""
    if isinstance(t, str) or isinstance(r, str):
        if t == r:
            return True
        # pure-Python math raises where C/numba return inf/nan; the twin follows C
        return r in ("ValueError", "OverflowError") or t in ("ZeroDivisionError", "OverflowError") or r == "ZeroDivisionError"
    ft, fr = list(flat(t)), list(flat(r))
    if len(ft) != len(fr):
        return False
    return all(close(a, b, 1e-9, 0.0) or (isinstance(a, float) and abs(a - b) <= 1e-9 * (1 + abs(a))) for a, b in zip(ft, fr))



# ------------------------------------------------------------------ argument tuples recorded from real EP runs
WRAPPERS = ["gamma_projection", "leafward_projection", "rootward_projection", "unphased_projection",
            "twin_projection", "sideways_projection", "mutation_gamma_projection",
            "mutation_leafward_projection", "mutation_rootward_projection", "mutation_edge_projection",
            "mutation_unphased_projection", "mutation_twin_projection", "mutation_sideways_projection",
            "mutation_block_projection"]


def record_ep(rng, n_ts, keep=400):
    """run tsdate.date (variational_gamma, pure-Python kernels) on small simulated tree sequences with the
    projection wrappers of tsdate.approx wrapped from outside; returns {wrapper: [argument lists]} (a
    random subsample of at most `keep` per wrapper) and the number of successful runs"""
    import tsdate
    import tsdate.approx as X
    from vlib import gen
    if os.environ.get("NUMBA_DISABLE_JIT") != "1":
        raise RuntimeError("record_ep needs NUMBA_DISABLE_JIT=1 (the kernels must be plain Python to be wrapped)")
    rec = {n: [] for n in WRAPPERS}
    orig = {n: getattr(X, n) for n in WRAPPERS}

    def wrap(n):
        f = orig[n]

        def g(*args):
            rec[n].append([tuple(float(v) for v in a) if isinstance(a, np.ndarray) else float(a) for a in args])
            return f(*args)
        return g
    runs = 0
    try:
        for n in WRAPPERS:
            setattr(X, n, wrap(n))
        for _ in range(n_ts):
            dip = rng.random() < 0.5
            ts = gen.sim_ts(rng, n=rng.randint(2, 5) if dip else rng.randint(3, 10), L=rng.choice([20, 100, 1000]),
                            ploidy=2 if dip else 1)
            if rng.random() < 0.3:
                ts = gen.internal_samples(rng, ts, k=rng.randint(1, 2))
            if ts.num_mutations == 0:
                continue
            kw = {"rescaling_intervals": rng.choice([0, 1, 2, 5])}
            if dip and rng.random() < 0.8:
                kw["singletons_phased"] = False
            try:
                tsdate.date(ts, mutation_rate=rng.choice([1e-2, 1e-1, 1.0]), progress=False, **kw)
                runs += 1
            except Exception:
                pass                      # input classes tsdate rejects are the business of C35
    finally:
        for n in WRAPPERS:
            setattr(X, n, orig[n])
    for n in WRAPPERS:
        if len(rec[n]) > keep:
            rec[n] = rng.sample(rec[n], keep)
    return rec, runs


def perturb(rng, pyname, args, spread=2.0):
    """a recorded argument list of a projection wrapper moved within the range EP visits: one common
    change of time unit c (rates / c, ages * c) and an independent factor in [1/spread, spread] on
    every shape (kept >= 1 when it was), rate, count and mutational span"""
    params = info()["meta"][pyname]["params"]
    c = lu(rng, 1e-6, 1e6)

    def f():
        return lu(rng, 1.0 / spread, spread)
    out = []
    for p, a in zip(params, args):
        if p in ("pars_i", "pars_j"):
            shape = a[0] + 1.0
            new = shape * f()
            if shape >= 1.0:
                new = max(new, 1.0)
            out.append((new - 1.0, a[1] * f() / c))
        elif p == "pars_ij":
            out.append((a[0] * f(), a[1] * f() / c))
        else:
            out.append(a * c)
    return out


# ------------------------------------------------------------------ numba-compiled functions (thorough tier)
_JIT_SCRIPT = r'''
import sys, json, math
import numpy as np
sys.path.insert(0, %(tools)r)
import tsdate.approx, tsdate.hypergeo
from props import _approx as A
cases = json.load(sys.stdin)
out = {}
for fn, lst in cases.items():
    mod = tsdate.approx if hasattr(tsdate.approx, fn) else tsdate.hypergeo
    f = getattr(mod, fn)
    res = []
    for args in lst:
        args = [tuple(float(x) for x in a) if isinstance(a, list) else float(a) for a in args]
        res.append(A.jsonable(A.run_py(f, args)))
    out[fn] = res
json.dump(out, sys.stdout)
'''


def unjson(x):
    if isinstance(x, list):
        return tuple(unjson(y) for y in x)
    if isinstance(x, str) and x in ("nan", "inf", "-inf"):
        return float(x)
    return x


def jit_check(ctx, names, n_per_fn):
    """the numba-compiled functions (JIT on, separate process) against the plain-Python twin on generated
    arguments: compiled code must agree to 1e-9 (x**k is compiled to multiplications, libm otherwise)"""
    import json
    import subprocess
    tw = twin()
    names = [n for n in names if info()["meta"][n]["module"] == "approx" and not n.startswith("_valid")
             and n not in ("approximate_gamma_mom", "approximate_log_moments", "approximate_gamma_kl")]
    cases = {n: [gen_args(ctx.rng, n, tame=True) for _ in range(n_per_fn)] for n in names}
    env = dict(os.environ)
    env.pop("NUMBA_DISABLE_JIT", None)
    tools = os.path.abspath(os.path.join(os.path.dirname(__file__), ".."))
    p = subprocess.run([sys.executable, "-c", _JIT_SCRIPT % {"tools": tools}],
                       input=json.dumps({n: [jsonable(a) for a in v] for n, v in cases.items()}),
                       capture_output=True, text=True, env=env, timeout=1500)
    if p.returncode != 0:
        ctx.tie_fail("correspondence", "jit-subprocess", p.stderr[-1500:])
        return
    res = json.loads(p.stdout)
    for n in names:
        for a, r in zip(cases[n], res[n]):
            r = unjson(r)
            t, _ = tw.call(n, a)
            ok = jit_same(n, a, t, r)
            if ok is None:
                ctx.tally("jit:python-only-exception-not-compared")
                continue
            ctx.corr("numba-compiled %s vs plain Python" % n, ok, "python %r compiled %r" % (t, r),
                     replay={"fn": n, "args": jsonable(a)})


def jit_same(name, args, t, r):
    """plain Python (libm) vs numba-compiled on coherent arguments.  numba's lgamma and libm's differ in
    the last bits, and differences of log-gammas / E[x^2] - mean^2 amplify that, so only gross
    disagreement is a broken tie: means and probabilities to 1e-6, variances to 1e-6 of mean^2;
    log normalisers and natural parameters (functions of the variance) are not compared."""
    if isinstance(t, str) or isinstance(r, str):
        if t == r:
            return True
        if t in ("OverflowError", "ZeroDivisionError") or r in ("ZeroDivisionError",):
            return None
        return False
    ft, fr = list(flat(t)), list(flat(r))
    if len(ft) != len(fr):
        return False
    lay = LAYOUT.get(name)
    if name.endswith("_projection"):
        lay = ("p" if name.startswith("mutation_") else "l") + "sr" * ((len(ft) - 1) // 2)
    for k, (a, b) in enumerate(zip(ft, fr)):
        kind = lay[k] if lay and k < len(lay) else "x"
        if kind in "lsr":
            if (a != a) != (b != b):
                return False
            continue
        if kind == "v" and k > 0 and isinstance(fr[k - 1], float) and fr[k - 1] == fr[k - 1] and not math.isinf(fr[k - 1]):
            if not close(a, b, 1e-6, 1e-6 * fr[k - 1] * fr[k - 1]):
                return False
        elif not close(a, b, 1e-6, 1e-300):
            return False
    return True
