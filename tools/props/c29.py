"""C29 -- splitting disjoint nodes preserves every local tree."""
import json

import numpy as np

from props import _sweep as S
from vlib.coqfmt import cZ, cnat, cbool, clist

ENV_BY_TIER = {"quick": {"NUMBA_DISABLE_JIT": "1"}, "thorough": {}}

RULE = ("integer-coordinate tree sequences: msprime (recombining; Kingman/Beta/Dirac; historical and internal "
        "samples) through structural mutators (delete an interval = every spanning node gets two pieces, cut "
        "part of an edge, isolate a sample over an interval, keep_unary subset) and msprime-free random DAG tables "
        "(nodes with many disjoint pieces, isolated nodes, regions without edges), plus extra mutations on "
        "arbitrary nodes (on isolated samples, before the first / beyond the last edge, in gaps of their node, 40% exactly "
        "ON tree breakpoints / piece boundaries, "
        "several per site); tied node times; ~40% of the inputs decorated by gen.exotic (extra flag bits incl. an "
        "already-set NODE_SPLIT_BY_PREPROCESS, ALL nodes renumbered, root mutations, mutation-free sites incl. "
        "num_sites == num_mutations, arbitrary states, populations); a tree sequence without edges; 35% of the inputs with chromosome-scale integer coordinates (breakpoints "
        "next to 2^24, 2^25, 2^31, 1e8, 3e8; gaps of 1-8 bp between a node's pieces); x node metadata "
        "none / permissive JSON. Non-trivial = at least one node is split")
ASSUME = ["tskit: tables.sort / build_index / compute_mutation_parents / Tree API / genotype_matrix",
          "integer genomic coordinates in the correspondence; the theorems are about the model over Z",
          "node ids of edges and mutations are in range (tskit validates this)",
          "numba compiles the kernels as written"]



# ---------------------------------------------------------------- implementation side
def impl_kernels(ts, excluded):
    import tsdate.util as util
    with S.time_limit(30):
        ep, ec, order, split = util._split_disjoint_nodes(
            ts.edges_parent, ts.edges_child, ts.edges_left, ts.edges_right, np.array(excluded, dtype=bool))
        ep = np.asarray(ep, dtype=np.int32)
        ec = np.asarray(ec, dtype=np.int32)
        out = util._relabel_mutations_node(
            ts.mutations_node, ts.sites_position[ts.mutations_site], order, ep, ec,
            ts.edges_left, ts.edges_right, ts.indexes_edge_insertion_order, ts.indexes_edge_removal_order)
    return ([int(x) for x in ep], [int(x) for x in ec], [int(x) for x in order], [int(x) for x in split],
            [int(x) for x in out])


def impl_split(ts):
    import tsdate.util as util
    with S.time_limit(60):
        return util.split_disjoint_nodes(ts, record_provenance=False)


# ---------------------------------------------------------------- model side
def coq_case(k, ts, excluded):
    defs = S.coq_table_defs(k, ts) + "Definition excl%d := %s.\n" % (k, S.coq_bools(excluded))
    d = {"k": k}
    term = ("(valid_tablesb L%(k)d es%(k)d ins%(k)d rem%(k)d, "
            "split_disjoint_nodes es%(k)d excl%(k)d muts%(k)d ins%(k)d rem%(k)d)" % d)
    return defs, term


def run_model(ctx, items):
    texts = [coq_case(k, ts, ex) for k, (ts, ex) in enumerate(items)]
    return S.coq_run_cases(ctx, texts, ("lib.Tables", "model.Sweep", "model.Split"), "split")


# ---------------------------------------------------------------- oracle
def node_intervals(ts):
    """{node: merged list of [l, r) over which it is the parent or child of an edge}"""
    iv = {}
    for e in ts.edges():
        for u in (e.parent, e.child):
            iv.setdefault(int(u), []).append((int(e.left), int(e.right)))
    out = {}
    for u, l in iv.items():
        l.sort()
        merged = []
        for a, b in l:
            if merged and a <= merged[-1][1]:
                merged[-1][1] = max(merged[-1][1], b)
            else:
                merged.append([a, b])
        out[u] = merged
    return out


def present_at(iv, u, x):
    return any(a <= x < b for a, b in iv.get(u, []))


def oracle(ctx, ts, ts2, rp, order, check_idempotent=True):
    """`order` = the kernel's nodes_order, used as the CANDIDATE origin of every output node and
    verified here against the local trees, the node columns and the mutations"""
    import tskit
    import tsdate
    SPLIT = tsdate.NODE_SPLIT_BY_PREPROCESS
    N = ts.num_nodes
    fail = lambda sig, msg: ctx.oracle_fail("split:" + sig, msg, rp)   # noqa: E731
    if ts2.num_nodes != len(order):
        return fail("node-count", "output has %d nodes, nodes_order has %d entries" % (ts2.num_nodes, len(order)))
    if any(not (0 <= o < N) for o in order) or list(order[:N]) != list(range(N)):
        return fail("nodes-order", "nodes_order is not the identity on old ids / out of range: %r" % (order,))
    origin = {u: int(order[u]) for u in range(ts2.num_nodes)}
    iv1, iv2 = node_intervals(ts), node_intervals(ts2)
    if ts2.num_edges != ts.num_edges:
        fail("edge-count", "number of edges changed: %d -> %d" % (ts.num_edges, ts2.num_edges))
    smp = S.is_sample_list(ts)
    # (a) per position, the parent relation maps back
    bps = sorted(set(int(x) for x in ts.breakpoints()) | set(int(x) for x in ts2.breakpoints()))
    t1 = ts.first()
    t2 = ts2.first()
    for x in bps[:-1]:
        t1.seek(x)
        t2.seek(x)
        rel1 = sorted((int(c), int(t1.parent(c))) for c in range(N) if t1.parent(c) != tskit.NULL)
        rel2 = sorted((origin[c], origin[int(t2.parent(c))]) for c in range(ts2.num_nodes) if t2.parent(c) != tskit.NULL)
        if rel2 != rel1:
            return fail("trees:parent-relation",
                        "at position %d the mapped-back parent relation %r differs from the input's %r" % (x, rel2, rel1))
    # (b) contiguity of non-sample nodes
    for u in range(ts2.num_nodes):
        if not smp[origin[u]] and len(iv2.get(u, [])) > 1:
            return fail("contiguity", "non-sample output node %d (from %d) is present on %r" % (u, origin[u], iv2[u]))
    # (c) leftmost piece keeps the id; other pieces are fresh; samples are never split
    pieces = {}
    for u in range(ts2.num_nodes):
        pieces.setdefault(origin[u], []).append(u)
    for o, ps in pieces.items():
        if smp[o] and len(ps) > 1:
            return fail("sample-split", "sample node %d was split into %r" % (o, ps))
        if len(ps) > 1:
            lefts = {u: (iv2[u][0][0] if u in iv2 else None) for u in ps}
            if any(v is None for v in lefts.values()):
                return fail("empty-piece", "a piece of node %d is in no edge: %r" % (o, lefts))
            first = min(ps, key=lambda u: lefts[u])
            if first != o:
                return fail("leftmost-id", "leftmost piece of node %d has id %d" % (o, first))
            # union of the pieces = presence of the original
            un = sorted(tuple(i) for u in ps for i in iv2[u])
            if un != [tuple(i) for i in iv1[o]]:
                return fail("pieces-union", "pieces of node %d cover %r, the node covered %r" % (o, un, iv1[o]))
        elif not smp[o] and len(iv1.get(o, [])) > 1:
            return fail("not-split", "non-sample node %d has %d disjoint pieces and was not split" % (o, len(iv1[o])))
    # (d) copies keep the columns, split flag on every piece of a split node
    split_set = {o for o, ps in pieces.items() if len(ps) > 1}
    for u in range(ts2.num_nodes):
        o = origin[u]
        a, b = ts2.node(u), ts.node(o)
        if a.time != b.time or a.population != b.population or a.individual != b.individual:
            return fail("columns", "node %d (from %d): time/population/individual differ" % (u, o))
        if (a.flags & ~SPLIT) != (b.flags & ~SPLIT):
            return fail("flags", "node %d (from %d): flags %d vs %d" % (u, o, a.flags, b.flags))
        if bool(a.flags & SPLIT) != (o in split_set or bool(b.flags & SPLIT)):
            return fail("split-flag", "node %d (from %d): split flag %s, node split: %s" % (u, o, bool(a.flags & SPLIT), o in split_set))
        if rp.get("json_metadata"):
            md = a.metadata
            if o in split_set:
                if md.get("unsplit_node_id") != o:
                    return fail("metadata", "node %d (from %d): metadata %r" % (u, o, md))
            elif md != b.metadata:
                return fail("metadata-changed", "node %d: metadata %r vs %r" % (u, md, b.metadata))
    # (e) mutations keep their site and follow the piece present at their position
    if ts2.num_sites != ts.num_sites or ts2.num_mutations != ts.num_mutations:
        return fail("mutation-count", "sites/mutations changed")
    for s1, s2 in zip(ts.sites(), ts2.sites()):
        if s1.position != s2.position:
            return fail("site-position", "site %d moved" % s1.id)
        x = int(s1.position)
        a = sorted((m.node, m.derived_state) for m in s1.mutations)
        b = sorted((origin[m.node], m.derived_state) for m in s2.mutations)
        if a != b:
            return fail("mutation-node", "site at %d: mutations %r map back to %r" % (x, a, b))
        for m in s2.mutations:
            if present_at(iv1, origin[m.node], x) and not present_at(iv2, m.node, x):
                return fail("mutation-piece", "site at %d: mutation on node %d sits on piece %d which is absent there"
                            % (x, origin[m.node], m.node))
    # (f) genotypes
    pairs = [(int(m.site), int(m.node)) for m in ts.mutations()]
    # (two mutations on one branch at one site: the genotype then depends on the order tskit's
    # sort gives to tied rows -- DESIGN.md section 9, K9 -- so genotypes are not compared there)
    if ts.num_samples and ts.num_sites and len(set(pairs)) == len(pairs):
        # compared as allele STRINGS per sample: the integer coding of genotype_matrix follows the row
        # order of a site's mutations, which tskit's sort may permute (K9)
        def alleles(t):
            return [[v.alleles[g] if g >= 0 else None for g in v.genotypes] for v in t.variants()]
        if list(ts.samples()) != list(ts2.samples()) or alleles(ts) != alleles(ts2):
            return fail("genotypes", "the samples' alleles changed at some site")
    # (g) idempotence
    if check_idempotent:
        ts3 = impl_split(ts2)
        t2, t3 = ts2.dump_tables(), ts3.dump_tables()
        if not (t2.nodes.equals(t3.nodes) and t2.edges.equals(t3.edges) and t2.mutations.equals(t3.mutations)
                and t2.sites.equals(t3.sites)):
            return fail("idempotent", "a second application changed the tables")
    return origin


def with_json_metadata(ts, mode="full"):
    """JSON schema on the node table; mode 'full' = every row has metadata, 'empty' = the schema only (the whole
    column is empty: every row decodes to {}), 'mixed' = every third row is empty (True = 'full': old replays)"""
    import tskit
    tables = ts.dump_tables()
    tables.nodes.metadata_schema = tskit.MetadataSchema.permissive_json()
    if mode == "empty":
        return tables.tree_sequence()
    md = [(b"" if (mode == "mixed" and i % 3 == 0) else json.dumps({"k": i}).encode()) for i in range(ts.num_nodes)]
    packed, off = tskit.pack_bytes(md)
    tables.nodes.set_columns(flags=tables.nodes.flags, time=tables.nodes.time, population=tables.nodes.population,
                             individual=tables.nodes.individual, metadata=packed, metadata_offset=off)
    return tables.tree_sequence()


def make_item(rng):
    ts, kind = S.any_ts(rng, diploid=rng.random() < 0.2, mutations=True, max_edges=100, stretch=0)
    r = rng.random()
    if r < 0.35 and int(ts.sequence_length) >= 3:
        ts = S.delete_interval(rng, ts, flank="mid")
        kind += "+midgap"
        ts = S.add_mutations(rng, ts, k=rng.randint(1, 5))
    if ts.num_mutations and rng.random() < 0.35:
        ts = S.site_mutation_coincidence(rng, ts)      # num_sites == num_mutations, map not one-to-one
        kind += "+sites=muts"
    if rng.random() < 0.35:
        ts = S.stretch_coords(rng, ts)                 # chromosome-scale coordinates, 1-8 bp gaps
        kind += "+stretch"
    jsonmd = rng.choice(["full", "empty", "mixed"]) if rng.random() < 0.4 else False
    if jsonmd:
        ts = with_json_metadata(ts, jsonmd)
    if rng.random() < 0.8:
        excluded = S.is_sample_list(ts)
    else:
        excluded = [rng.random() < 0.4 for _ in range(ts.num_nodes)]
    return ts, excluded, kind, jsonmd


def zero_edge_ts():
    import tskit
    t = tskit.TableCollection(10)
    t.nodes.add_row(flags=1, time=0)
    t.nodes.add_row(flags=1, time=0)
    s = t.sites.add_row(3, "0")
    t.mutations.add_row(site=s, node=0, derived_state="1")
    return t.tree_sequence()


def check_one(ctx, ts, excluded, kind, jsonmd, model):
    """correspondence (when model is given) + oracle; returns whether some node was split"""
    smp = S.is_sample_list(ts)
    rp = {"tables": S.describe(ts), "excluded": excluded, "kind": kind, "json_metadata": jsonmd}
    try:
        got = impl_kernels(ts, excluded)
    except S.ImplTimeout as e:
        ctx.oracle_fail("timeout", str(e), rp)
        return False
    except (AssertionError, IndexError) as e:
        ctx.oracle_fail("split:kernel-raised:%s" % type(e).__name__, repr(e), rp)
        return False
    if model is not None:
        valid, m = model
        if not valid:
            ctx.tie_fail("correspondence", "valid_tablesb", "a tskit tree sequence violates the validity hypotheses", rp)
        if m is None:
            ctx.corr("_split_disjoint_nodes+_relabel_mutations_node", False, "model returned None", rp)
        else:
            mp, mc, mo, ms, mout = m[1]
            ok = (list(mp) == got[0] and list(mc) == got[1] and list(mo) == got[2] and list(ms) == got[3]
                  and list(mout) == got[4])
            ctx.corr("_split_disjoint_nodes+_relabel_mutations_node", ok,
                     "impl=%r model=%r" % (got, m[1]), dict(rp, impl=got))
    split_any = len(got[3]) > 0
    if excluded != smp:
        return split_any
    try:
        ts2 = impl_split(ts)
    except S.ImplTimeout as e:
        ctx.oracle_fail("timeout", str(e), rp)
        return split_any
    except Exception as e:                                    # valid input: must not fail
        ctx.oracle_fail("split:raised:%s" % type(e).__name__, repr(e)[:300], rp)
        return split_any
    # the public function must use exactly the kernels' result
    want_edges = sorted((float(e.left), float(e.right), got[0][e.id], got[1][e.id]) for e in ts.edges())
    have_edges = sorted((float(e.left), float(e.right), int(e.parent), int(e.child)) for e in ts2.edges())
    if model is not None:
        ctx.corr("split_disjoint_nodes: edges", want_edges == have_edges, "", rp)
        want_m = sorted((int(ts.mutations_site[i]), got[4][i]) for i in range(ts.num_mutations))
        have_m = sorted((int(m.site), int(m.node)) for m in ts2.mutations())
        ctx.corr("split_disjoint_nodes: mutations (by site, K9-tolerant)", want_m == have_m, "", rp)
        ctx.corr("split_disjoint_nodes: node rows follow nodes_order",
                 ts2.num_nodes == len(got[2]) and all(ts2.node(j).time == ts.node(got[2][j]).time for j in range(ts2.num_nodes)),
                 "", rp)
    oracle(ctx, ts, ts2, rp, got[2])
    return split_any


def run(ctx, model_ok=True):
    import logging
    logging.disable(logging.WARNING)
    n = ctx.n(170, 2000)
    items = [make_item(ctx.rng) for _ in range(n)]
    # corpus: a valid input WITHOUT edges (raised IndexError before repair 3af34f9); ordinary case now
    zt = zero_edge_ts()
    items.insert(0, (zt, S.is_sample_list(zt), "corpus:zero-edges", False))
    models = run_model(ctx, [(ts, ex) for ts, ex, kind, j in items]) if model_ok else [None] * len(items)
    for (ts, excluded, kind, jsonmd), model in zip(items, models):
        split_any = check_one(ctx, ts, excluded, kind, jsonmd, model)
        ctx.case({"kind": kind, "summary": S.summary(ts), "edges": S.describe(ts)["edges"][:6],
                  "mutations": S.describe(ts)["mutations"][:6], "json_metadata": jsonmd},
                 nontrivial=split_any, kind=kind.split("+")[0] + ("/split" if split_any else "/nosplit"))


def search(ctx):
    for _ in range(ctx.n(800, 4000)):
        ts, excluded, kind, jsonmd = make_item(ctx.rng)
        check_one(ctx, ts, S.is_sample_list(ts), kind, jsonmd, None)
        if ctx.oracle_fails:
            return


def replay(ctx, data):
    from vlib import gen
    case = data["case"]
    ts = gen.ts_from_dict(case["tables"])
    if case.get("json_metadata"):
        ts = with_json_metadata(ts, case["json_metadata"] if isinstance(case["json_metadata"], str) else "full")
    before = len(ctx.oracle_fails)
    check_one(ctx, ts, S.is_sample_list(ts), "replay", case.get("json_metadata") or False, None)
    return len(ctx.oracle_fails) == before
