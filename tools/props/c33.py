"""C33 -- provenance records each call exactly once."""
import json

import numpy as np

from props import _glue as G
from vlib.coqfmt import cZ, clist, copt

ENV_BY_TIER = {"quick": {"NUMBA_DISABLE_JIT": "1"}, "thorough": {"NUMBA_DISABLE_JIT": "1"}}

RULE = ("dating calls: {date(method=..), named function} x 3 methods x record_provenance in {None, True, False} x "
        "generic parameters (time_units, progress, mutation_rate as float/np.float64, population_size as float / "
        "dict / PopulationSizeHistory) x method arguments (explicit or defaulted) x 0..4 earlier provenance "
        "records, plus numpy-typed values (ndarray, numpy ints, float32: must be recorded as lists / python numbers); preprocess_ts over "
        "minimum_gap/erase_flanks/delete_intervals/split_disjoint/filter_*/record_provenance and simplify kwargs; "
        "split_disjoint_nodes. Non-trivial: recording is on; distinct by content hash")
ASSUME = ["json.dumps / tskit.validate_provenance are external", "default values of the wrappers are tabulated in the "
          "harness from the documentation (DEFAULTS) and compared with what the implementation records"]

METHODS = ["variational_gamma", "inside_outside", "maximization"]
RUN_KEYS = {
    "variational_gamma": ["max_iterations", "max_shape", "rescaling_intervals", "rescaling_iterations",
                          "match_segregating_sites", "regularise_roots", "singletons_phased"],
    "inside_outside": ["eps", "outside_standardize", "ignore_oldest_root", "probability_space", "num_threads",
                       "cache_inside"],
    "maximization": ["eps", "probability_space", "num_threads", "cache_inside"],
}
# documented defaults (docstrings of the three functions); cache_inside is undocumented:
# inside_outside declares False, maximization None
DEFAULTS = {
    "variational_gamma": dict(max_iterations=25, max_shape=1000, rescaling_intervals=1000, rescaling_iterations=5,
                              match_segregating_sites=False, regularise_roots=True, singletons_phased=True),
    "inside_outside": dict(eps=1e-8, outside_standardize=True, ignore_oldest_root=False,
                           probability_space="logarithmic", num_threads=None, cache_inside=False),
    "maximization": dict(eps=1e-8, probability_space="logarithmic", num_threads=None, cache_inside=None),
}
GENERIC = ["mutation_rate", "recombination_rate", "time_units", "progress", "population_size"]
# passed to the call, change the returned tree sequence, never reach the record
UNRECORDED = ["constr_iterations", "min_branch_length", "allow_unary", "set_metadata"]
K4_SIG = "c33:unserialisable-parameter"
UNREC_SIG = "c33:parameter-not-recorded"


def _json_default(obj):
    """what provenance.record_provenance converts since the K4 repair (commit 41e0a45)"""
    if isinstance(obj, np.ndarray):
        return obj.tolist()
    if isinstance(obj, np.generic):
        return obj.item()
    raise TypeError("not JSON serializable")


def dumpable(v):
    try:
        json.dumps(v, default=_json_default)
        return True
    except TypeError:
        return False


def canon(v):
    """canonical text of a parameter value for comparison: numbers as floats (0 == 0.0), numpy
    scalars / arrays as the python values they stand for"""
    def norm(x):
        if isinstance(x, np.ndarray):
            return norm(x.tolist())
        if isinstance(x, np.generic):
            return norm(x.item())
        if isinstance(x, bool) or x is None or isinstance(x, str):
            return x
        if isinstance(x, (int, float)):
            return ["#", repr(float(x))]
        if isinstance(x, (list, tuple)):
            return [norm(y) for y in x]
        if isinstance(x, dict):
            return {str(k): norm(y) for k, y in x.items()}
        return repr(x)
    return json.dumps(norm(v), sort_keys=True)


class Values:
    """interned values for the model: 0 = json.dumps rejects it (the call then raises)"""

    def __init__(self):
        self.intern = G.Interner()

    def __call__(self, v):
        return self.intern(canon(v)) if dumpable(v) else 0


ZERO_D_OK = {"mutation_rate", "eps", "minimum_gap", "max_shape", "rescaling_iterations", "max_iterations"}


def npify(rng, key, v):
    """the same value as a numpy scalar / 0-d array (np.bool_, np.str_, np.int64, np.int32,
    np.float64, np.float32 or np.float16 when exact, 0-d ndarray)"""
    if isinstance(v, (bool, np.bool_)):
        return np.bool_(v)
    if isinstance(v, str):
        return np.str_(v)
    if isinstance(v, int):
        c = [np.int64(v), np.int32(v)] + ([np.array(v)] if key in ZERO_D_OK else [])
        return rng.choice(c)
    if isinstance(v, float):
        c = [np.float64(v)]
        for t in (np.float32, np.float16):
            if float(t(v)) == v:
                c.append(t(v))
        if key in ZERO_D_OK:
            c.append(np.array(v))
        return rng.choice(c)
    return v


def with_provenances(rng, ts):
    """0..4 earlier records"""
    tables = ts.dump_tables()
    k = rng.choice([0, 0, 1, 2, 4])
    tables.provenances.clear()
    for i in range(k):
        tables.provenances.add_row(record=json.dumps({"earlier": i, "x": rng.random()}),
                                   timestamp="2020-01-0%dT00:00:00" % (i + 1))
    return tables.tree_sequence()


def prov_rows(ts):
    return [(p.timestamp, p.record) for p in ts.provenances()]


def gen_dating_call(rng, ts):
    method = rng.choice(METHODS)
    via_date = rng.random() < 0.5
    kw = {}
    passed = {}
    # generic
    mr = rng.choice([0.5, 0.05, np.float64(0.5)])
    kw["mutation_rate"] = mr
    if rng.random() < 0.5:
        kw["time_units"] = rng.choice(["years", "generations", None])
    if rng.random() < 0.4:
        kw["progress"] = rng.choice([False, None])
    pop_expected = None
    if method != "variational_gamma":
        import tsdate
        form = rng.choice(["float", "int", "dict", "obj", "npfloat"])
        if form == "float":
            kw["population_size"] = pop_expected = rng.choice([1.0, 2.5])
        elif form == "int":
            kw["population_size"] = pop_expected = 1
        elif form == "npfloat":
            kw["population_size"] = pop_expected = np.float64(1.5)
        else:
            sizes, breaks = [1.0, 2.0], [0.7]
            pop_expected = {"population_size": sizes, "time_breaks": breaks}
            kw["population_size"] = dict(pop_expected) if form == "dict" else \
                tsdate.demography.PopulationSizeHistory(np.array(sizes), np.array(breaks))
    # method arguments: a random subset explicit, the rest defaulted
    choices = {
        "max_iterations": [1, 2, 3], "max_shape": [1000, 50.5], "rescaling_intervals": [0, 2],
        "rescaling_iterations": [1, 5], "match_segregating_sites": [True, False], "regularise_roots": [True, False],
        "singletons_phased": [True], "eps": [1e-8, 1e-6], "outside_standardize": [True, False],
        "ignore_oldest_root": [False, True], "probability_space": ["logarithmic", "linear"],
        "num_threads": [None, 1], "cache_inside": [False, True, None],
    }
    args = dict(DEFAULTS[method])
    if method == "variational_gamma":
        kw["max_iterations"] = args["max_iterations"] = rng.choice([1, 2])
        kw["rescaling_intervals"] = args["rescaling_intervals"] = rng.choice([0, 0, 2])
    for k in RUN_KEYS[method]:
        if k not in kw and rng.random() < 0.4:
            kw[k] = args[k] = rng.choice(choices[k])
    # unrecorded-but-used parameters
    extra = {}
    if rng.random() < 0.25:
        k = rng.choice(UNRECORDED)
        extra[k] = {"constr_iterations": 3, "min_branch_length": 0.01, "allow_unary": True, "set_metadata": False}[k]
    # numpy-typed values (K4, repaired in 41e0a45): the record must hold the JSON equivalent of the
    # value used -- same type (true/false, number, string, list) and same value
    bad = None
    if rng.random() < 0.35:
        for k in list(kw):
            if k == "population_size":
                if rng.random() < 0.3 and isinstance(kw[k], float):
                    kw[k] = pop_expected = rng.choice([np.array([kw[k]]), np.float64(kw[k])])
                    bad = bad or k
                continue
            if kw[k] is None or rng.random() < 0.5:
                continue
            v = npify(rng, k, kw[k])
            if v is not kw[k]:
                kw[k] = v
                if k in args:
                    args[k] = v
                bad = bad or k
    rp = rng.choice(["absent", None, True, False])
    if rp != "absent":
        kw["record_provenance"] = rp
    rp_eff = True if rp == "absent" else rp     # date() declares True, the named functions None
    generic = {"mutation_rate": kw["mutation_rate"], "recombination_rate": None,
               "time_units": kw.get("time_units"), "progress": kw.get("progress"), "population_size": pop_expected}
    return dict(kind="dating", method=method, via_date=via_date, kw=kw, extra=extra, rp=rp_eff,
                generic=generic, args=[args[k] for k in RUN_KEYS[method]], bad=bad)


def call_dating(ts, c):
    import tsdate
    kw = dict(c["kw"])
    kw.update(c["extra"])
    if c["via_date"]:
        return tsdate.date(ts, method=c["method"], **kw)
    return getattr(tsdate, c["method"])(ts, **kw)


def expected_intervals(ts, minimum_gap, erase_flanks):
    """delete_intervals as documented: flanks outside the sites (+-1) and gaps >= minimum_gap"""
    sites = [float(x) for x in ts.sites_position]
    out = []
    if erase_flanks:
        if sites[0] - 1 > 0:
            out.append([0, sites[0] - 1])
        if sites[-1] + 1 < ts.sequence_length:
            out.append([sites[-1] + 1, float(ts.sequence_length)])
    for a, b in zip(sites[:-1], sites[1:]):
        if b - a >= minimum_gap and (b - 1) > (a + 1):
            out.append([a + 1, b - 1])
    return sorted(out, key=lambda x: x[0])


def gen_prep_call(rng, ts):
    kw = {}
    extra = {}
    use_di = rng.random() < 0.3
    bad = None
    if use_di:
        L = float(ts.sequence_length)
        a = rng.choice([0.0, 1.0])
        iv = [[a, a + 1.0]] if L > 3 else [[0.0, 0.5]]
        if rng.random() < 0.4:
            kw["delete_intervals"] = np.array(iv)
            bad = "delete_intervals"
        else:
            kw["delete_intervals"] = iv
        mg, ef, di = None, None, kw["delete_intervals"]
    else:
        if rng.random() < 0.6:
            kw["minimum_gap"] = rng.choice([2, 5, 1000, np.int64(3)])
            if isinstance(kw["minimum_gap"], np.integer):
                bad = "minimum_gap"
        if rng.random() < 0.6:
            kw["erase_flanks"] = rng.choice([True, False])
        mg = kw.get("minimum_gap", 1000000)
        ef = kw.get("erase_flanks", True)
        di = expected_intervals(ts, mg, ef)
    for k in ("split_disjoint", "filter_populations", "filter_individuals", "filter_sites"):
        if rng.random() < 0.4:
            kw[k] = rng.choice([True, False])
    if rng.random() < 0.35:
        for k in list(kw):
            # (np.bool_ filter_* flags are rejected by tskit's simplify before any record is written)
            if k == "delete_intervals" or k.startswith("filter_") or kw[k] is None or rng.random() < 0.4:
                continue
            v = npify(rng, k, kw[k])
            if v is not kw[k]:
                kw[k] = v
                bad = bad or k
        if not use_di:
            mg = kw.get("minimum_gap", 1000000)
            ef = kw.get("erase_flanks", True)
    if rng.random() < 0.2:
        extra["keep_unary"] = True
    rp = rng.choice(["absent", None, True, False])
    if rp != "absent":
        kw["record_provenance"] = rp
    rp_eff = None if rp == "absent" else rp
    prep = [mg, ef, kw.get("split_disjoint", True), kw.get("filter_populations", False),
            kw.get("filter_individuals", False), kw.get("filter_sites", False), di]
    return dict(kind="preprocess", kw=kw, extra=extra, rp=rp_eff, prep=prep, bad=bad)


PREP_KEYS = ["minimum_gap", "erase_flanks", "split_disjoint", "filter_populations", "filter_individuals",
             "filter_sites", "delete_intervals"]


def describe(c):
    d = {k: c[k] for k in ("kind", "rp", "bad")}
    d["kwargs"] = {k: repr(v) for k, v in list(c.get("kw", {}).items()) + list(c.get("extra", {}).items())}
    d["method"] = c.get("method")
    d["via_date"] = c.get("via_date")
    return d


def oracle(ctx, c, its, ots, exc, payload):
    """the property itself, on the implementation's result"""
    import tskit
    recording = c["rp"] is None or c["rp"] is True
    if exc is not None:
        msg = str(exc)
        if isinstance(exc, TypeError) and "not JSON serializable" in msg and c["bad"] is not None and recording:
            ctx.oracle_fail("%s:%s" % (K4_SIG, msg.split()[3]), "%s=%r: %s" % (c["bad"], c["kw"][c["bad"]], msg), payload)
        elif type(exc).__name__ in ("AssertionError", "LibraryError", "FloatingPointError") or \
                (c["bad"] is not None and not isinstance(exc, TypeError)) or \
                (c["bad"] is not None and "JSON" not in msg):
            ctx.tally("raised-elsewhere(C35):" + type(exc).__name__)
        else:
            ctx.oracle_fail("c33:unexpected-exception:%s" % type(exc).__name__, repr(exc), payload)
        return
    before, after = prov_rows(its), prov_rows(ots)
    if not recording:
        if after != before:
            ctx.oracle_fail("c33:recording-off-table-changed", "%d -> %d records" % (len(before), len(after)), payload)
        return
    if len(after) != len(before) + 1:
        ctx.oracle_fail("c33:record-count", "%d earlier records, %d afterwards (expected +1)" % (len(before), len(after)),
                        payload)
        return
    if after[:len(before)] != before:
        ctx.oracle_fail("c33:earlier-records-changed", "", payload)
        return
    rec = json.loads(after[-1][1])
    try:
        tskit.validate_provenance(rec)
    except Exception as e:   # noqa: BLE001
        ctx.oracle_fail("c33:invalid-record", repr(e), payload)
        return
    par = rec["parameters"]
    name = {"dating": c.get("method"), "preprocess": "preprocess_ts", "split": "split_disjoint_nodes"}[c["kind"]]
    if par.get("command") != name or rec["software"]["name"] != "tsdate":
        ctx.oracle_fail("c33:wrong-command", "command=%r software=%r, expected %r" % (par.get("command"), rec["software"], name),
                        payload)
    # every explicitly passed parameter must be in the record with the value passed
    for k, v in c.get("kw", {}).items():
        if k == "record_provenance":
            continue
        want = v
        if k == "population_size" and c["kind"] == "dating":
            want = c["generic"]["population_size"]
        if k not in par:
            ctx.oracle_fail("c33:passed-parameter-missing:%s" % k, "%s=%r not in %r" % (k, v, par), payload)
        elif canon(par[k]) != canon(want):
            ctx.oracle_fail("c33:parameter-value:%s" % k, "recorded %r, passed %r" % (par[k], want), payload)
    for k, v in c.get("extra", {}).items():
        if k not in par:
            ctx.oracle_fail("%s:%s" % (UNREC_SIG, k), "%s=%r was passed and used but is not in the record" % (k, v), payload)
    # defaulted parameters are recorded with the documented default
    if c["kind"] == "dating":
        for k, v in zip(RUN_KEYS[c["method"]], c["args"]):
            if k not in par or canon(par[k]) != canon(v):
                ctx.oracle_fail("c33:parameter-value:%s" % k, "recorded %r, used %r" % (par.get(k), v), payload)
    if c["kind"] == "preprocess":
        for k, v in zip(PREP_KEYS, c["prep"]):
            if k not in par or canon(par[k]) != canon(v):
                ctx.oracle_fail("c33:parameter-value:%s" % k, "recorded %r, used %r" % (par.get(k), v), payload)


def model_term(c, before, V):
    """(Coq term, expected-shape helper)"""
    rp = {None: "None", True: "(Some true)", False: "(Some false)"}[c["rp"]]
    prov = clist(range(len(before)), lambda i: '[("old"%%string, %s)]' % cZ(1000 + i))
    if c["kind"] == "dating":
        g = c["generic"]
        gen = "(mkGeneric %s)" % " ".join(cZ(V(g[k])) for k in GENERIC)
        return "(run_date_prov %s %s %s %s %s)" % (rp, cZ(METHODS.index(c["method"])), gen,
                                                   clist(c["args"], lambda v: cZ(V(v))), prov)
    if c["kind"] == "preprocess":
        return "(run_prep_prov %s (mkPrep %s) %s)" % (rp, " ".join(cZ(V(v)) for v in c["prep"]), prov)
    return "(run_split_prov %s %s)" % (rp, prov)


def impl_shape(c, its, ots, exc, V):
    """what the implementation did, in the model's output vocabulary"""
    if exc is not None:
        return None
    before, after = prov_rows(its), prov_rows(ots)
    out = []
    for i, row in enumerate(after):
        if i < len(before) and row == before[i]:
            out.append([("old", 1000 + i)])
        else:
            try:
                par = json.loads(row[1])["parameters"]
            except Exception:   # noqa: BLE001
                out.append([("?", -7)])
                continue
            names = {"variational_gamma": -1, "inside_outside": -2, "maximization": -3, "preprocess_ts": -4,
                     "split_disjoint_nodes": -5}
            out.append([(k, names.get(v, -9) if k == "command" else V(v)) for k, v in par.items()])
    return ("Some", out)


def norm_model(m):
    if m is None:
        return None
    def key(k):
        return k[1].strip('"') if isinstance(k, tuple) else k
    return ("Some", [[(key(k), v) for k, v in rec] for rec in m[1]])


def run(ctx, model_ok=True):
    import tsdate
    G.quiet_logging()
    rng = ctx.rng
    V = Values()
    cases = []
    for _ in range(ctx.n(260, 2500)):
        ts = with_provenances(rng, G.pooled_ts(rng, size=ctx.n(8, 30), multi=False, min_muts=2))
        r = rng.random()
        if r < 0.6:
            c = gen_dating_call(rng, ts)
        elif r < 0.92:
            c = gen_prep_call(rng, ts)
        else:
            rp = rng.choice([None, True, False])
            c = dict(kind="split", rp=rp, kw={"record_provenance": rp}, extra={}, bad=None)
        exc = ots = None
        try:
            ots = run_call(ts, c)
        except Exception as e:   # noqa: BLE001
            exc = e
        payload = {"call": describe(c), "earlier_records": ts.num_provenances,
                   "replay": {"tables": G.tc_to_json(ts.dump_tables()), "c": G.plain({k: v for k, v in c.items()})}}
        recording = c["rp"] is None or c["rp"] is True
        ctx.case(describe(c), nontrivial=recording,
                 kind="%s/%s/%s" % (c["kind"], "rec" if recording else "norec",
                                    "raised" if exc is not None else "ok"))
        oracle(ctx, c, ts, ots, exc, payload)
        cases.append((c, ts, ots, exc, payload))
    if model_ok:
        model = []
        for i in range(0, len(cases), 300):
            body = "From Coq Require Import String.\nDefinition cases := %s.\nEval vm_compute in cases.\n" % clist(
                [model_term(c, prov_rows(ts), V) for c, ts, _o, _e, _p in cases[i:i + 300]])
            model += ctx.coq_eval(body, requires=("model.Glue",), tag="prov")[0]
        for (c, ts, ots, exc, payload), m in zip(cases, model):
            m = norm_model(m)
            if exc is not None:
                # the model raises exactly when a recorded value cannot be dumped; exceptions from
                # other mechanisms (K2, validation) are not this model's business
                if isinstance(exc, TypeError) and "JSON" in str(exc):
                    ctx.corr("provenance", m is None, "impl raised %r, model=%r" % (exc, m), replay=payload)
                continue
            a = impl_shape(c, ts, ots, exc, V)
            a = (a[0], [[(k, v) for k, v in rec] for rec in a[1]])
            ctx.corr("provenance", a == m, "impl=%r model=%r" % (a, m), replay=payload)


def search(ctx):
    run(ctx, model_ok=False)


def run_call(ts, c):
    import tsdate
    if c["kind"] == "dating":
        return call_dating(ts, c)
    if c["kind"] == "preprocess":
        kw = dict(c["kw"])
        kw.update(c["extra"])
        return tsdate.preprocess_ts(ts, **kw)
    return tsdate.util.split_disjoint_nodes(ts, **c["kw"])


def replay(ctx, data):
    """re-run one saved call; True iff exactly one valid record with the right parameters is added"""
    G.quiet_logging()
    case = data.get("case") or {}
    r = case.get("replay")
    if not r:
        print(json.dumps(case, indent=1)[:3000])
        return False
    ts = G.tc_from_json(r["tables"]).tree_sequence()
    c = G.unplain(r["c"])
    exc = ots = None
    try:
        ots = run_call(ts, c)
    except Exception as e:   # noqa: BLE001
        exc = e
    oracle(ctx, c, ts, ots, exc, case)
    return G.replay_verdict(ctx)
