"""C02 -- dating changes only times, time metadata and unphased singleton placement."""
import json

import numpy as np

from props import _glue as G
from props import c33 as P
from vlib.coqfmt import clist

ENV_BY_TIER = {"quick": {"NUMBA_DISABLE_JIT": "1"}, "thorough": {"NUMBA_DISABLE_JIT": "1"}}

RULE = ("small msprime inputs (2-4 samples, <=12 mutations; half with several mutations per site; half with "
        "populations, diploid individuals, migrations) decorated with every metadata kind on nodes and mutations, "
        "top-level / site / edge / migration / individual / population metadata and a reference sequence. "
        "(a) get_modified_ts driven directly with fabricated Results (means with ties and inversions, switched "
        "mutation nodes, NaN mutation moments) for the three method classes x set_metadata x time_units x "
        "record_provenance x constr_iterations x min_branch_length: complete output TableCollection compared with "
        "the Coq model's; (b) whole-table diff of date() input vs output for all methods and options incl. "
        "singletons_phased=False. Non-trivial: the output differs from the input in a time; distinct by content hash")
ASSUME = ["tskit's build_index / compute_mutation_parents / compute_mutation_times / tree_sequence() are external: the "
          "harness applies them to the tables predicted by the model", "tskit's metadata codec is tabulated (see C32)",
          "util.constrain_ages is the model of C27 (coq/model/Constrain.v, bit-exact)"]

K9_SIG = "c02:mutation-rows-reordered-within-multi-mutation-site"
SAFE_KINDS = [k for k in G.KINDS if k not in G.CRASH_KINDS]


# ----------------------------------------------------------------------------- the property oracle
def rows_of(table, cols):
    d = table.asdict()
    n = table.num_rows
    out = []
    for i in range(n):
        r = []
        for c in cols:
            if c + "_offset" in d:
                off = d[c + "_offset"]
                r.append(bytes(np.asarray(d[c][off[i]:off[i + 1]]).tobytes()))
            else:
                x = d[c][i]
                r.append(float(x) if isinstance(x, (float, np.floating)) else int(x))
        out.append(tuple(r))
    return out


def _decoded(schema, b):
    if len(b) == 0:
        return {}
    try:
        d = schema.decode_row(b)
    except Exception:   # noqa: BLE001
        return None
    return d if isinstance(d, dict) else None


def other_fields_diff(ta, tb, by_site):
    """'' or a description: some key other than mn / vr that a row held before is gone or changed.
    Mutation rows are compared as a multiset per site (rows may be permuted there: K9)"""
    if repr(ta.metadata_schema) != repr(tb.metadata_schema) or ta.num_rows != tb.num_rows:
        return ""
    schema = ta.metadata_schema
    ra, rb = G.table_rows(ta), G.table_rows(tb)
    if schema.schema is None:
        return ""

    def strip(d):
        return json.dumps({k: v for k, v in d.items() if k not in ("mn", "vr")}, sort_keys=True, default=str)
    da, db = [_decoded(schema, x) for x in ra], [_decoded(schema, x) for x in rb]
    if any(x is None for x in da) or any(x is None for x in db):
        return ""
    if not by_site:
        for i, (x, y) in enumerate(zip(da, db)):
            lost = [k for k in x if k not in ("mn", "vr") and (k not in y or y[k] != x[k])]
            if lost:
                return "row %d lost / changed %r: %r -> %r" % (i, lost, x, y)
        return ""
    groups_a, groups_b = {}, {}
    for i in range(ta.num_rows):
        groups_a.setdefault(int(ta.site[i]), []).append(strip(da[i]))
        groups_b.setdefault(int(tb.site[i]), []).append(strip({k: v for k, v in db[i].items() if k in da[i] or True}))
    for s_, la in groups_a.items():
        lb = groups_b.get(s_, [])
        # every input row's other fields must be found (as a subset of keys) among the output rows
        rest = [json.loads(x) for x in lb]
        for x in sorted(la, key=lambda t: -len(json.loads(t))):      # richest rows first, {} last
            xd = json.loads(x)
            hit = next((y for y in rest if y == xd), None) or \
                next((y for y in rest if all(k in y and y[k] == v for k, v in xd.items())), None)
            if hit is None:
                return "site %d: no output row keeps %r (output rows %r)" % (s_, xd, lb)
            rest.remove(hit)
    return ""


def frame_check(its, ots, unphased):
    """list of (signature, detail): everything that differs between input and output and is NOT
    allowed to differ by the statement of C02"""
    a, b = its.tables, ots.tables
    bad = []
    if a.sequence_length != b.sequence_length:
        bad.append(("c02:sequence-length", "%r -> %r" % (a.sequence_length, b.sequence_length)))
    if a.metadata_schema != b.metadata_schema or a.metadata_bytes != b.metadata_bytes:
        bad.append(("c02:top-level-metadata", ""))
    if a.reference_sequence != b.reference_sequence:
        bad.append(("c02:reference-sequence", ""))
    for name in ("sites", "individuals", "populations"):
        if getattr(a, name) != getattr(b, name):
            bad.append(("c02:%s-table-changed" % name, ""))
    # nodes: ids (row count), flags, populations, individuals
    if a.nodes.num_rows != b.nodes.num_rows:
        bad.append(("c02:node-count", "%d -> %d" % (a.nodes.num_rows, b.nodes.num_rows)))
    else:
        for col in ("flags", "population", "individual"):
            if not np.array_equal(getattr(a.nodes, col), getattr(b.nodes, col)):
                bad.append(("c02:node-%s" % col, ""))
    # the set of edges (rows with their metadata)
    ecols = ("left", "right", "parent", "child", "metadata")
    if a.edges.metadata_schema != b.edges.metadata_schema or sorted(rows_of(a.edges, ecols)) != sorted(rows_of(b.edges, ecols)):
        bad.append(("c02:edge-set-changed", "%d -> %d edges" % (a.edges.num_rows, b.edges.num_rows)))
    # migrations: the table must come back as it was, row for row
    if a.migrations != b.migrations:
        gcols = ("left", "right", "node", "source", "dest", "time", "metadata")
        ra, rb = rows_of(a.migrations, gcols), rows_of(b.migrations, gcols)
        bad.append(("c02:migration-table-changed", "rows in input order %r" % (
            [ra.index(r) if r in ra else None for r in rb],)))
    # metadata fields other than mn / vr (when the schema was kept; a replaced schema is the
    # clearing that the set_metadata policy of C32 allows)
    for name in ("nodes", "mutations"):
        d = other_fields_diff(getattr(a, name), getattr(b, name), by_site=(name == "mutations"))
        if d:
            bad.append(("c02:metadata-other-fields-changed:%s" % name, d))
    # mutations: site, derived state and (unless unphased) node of every row
    if a.mutations.num_rows != b.mutations.num_rows:
        bad.append(("c02:mutation-count", "%d -> %d" % (a.mutations.num_rows, b.mutations.num_rows)))
        return bad
    mcols = ("site", "derived_state", "node")
    ra, rb = rows_of(a.mutations, mcols), rows_of(b.mutations, mcols)
    node_ind = a.nodes.individual

    def switch_ok(u, v):
        """u -> v is a legal re-phasing: both sample nodes of one individual"""
        if unphased == "any":     # get_modified_ts level: the caller supplies the new nodes
            return True
        return unphased and u != v and node_ind[u] >= 0 and node_ind[u] == node_ind[v] and \
            (a.nodes.flags[u] & 1) and (a.nodes.flags[v] & 1)
    rowwise = []
    for i, (x, y) in enumerate(zip(ra, rb)):
        if x[:2] != y[:2] or (x[2] != y[2] and not switch_ok(x[2], y[2])):
            rowwise.append(i)
    if rowwise:
        # is it only a permutation of rows inside sites with several mutations (K9)?
        by_site_a, by_site_b = {}, {}
        for i, r in enumerate(ra):
            by_site_a.setdefault(r[0], []).append((i, r))
        for i, r in enumerate(rb):
            by_site_b.setdefault(r[0], []).append((i, r))
        perm_only = set(by_site_a) == set(by_site_b)
        if perm_only:
            for s, la in by_site_a.items():
                lb = by_site_b[s]
                if [i for i, _ in la] != [i for i, _ in lb]:
                    perm_only = False
                    break
                if all(x[:2] == y[:2] and (x[2] == y[2] or switch_ok(x[2], y[2]))
                       for (_, x), (_, y) in zip(la, lb)):
                    continue          # this site kept its row order
                # match output rows to input rows (same state; same node or a legal switch)
                rest = [r for _, r in la]
                for _, r in lb:
                    hit = next((q for q in rest if q[1] == r[1] and (q[2] == r[2] or switch_ok(q[2], r[2]))), None)
                    if hit is None:
                        perm_only = False
                        break
                    rest.remove(hit)
                tb_ = [b.mutations.time[i] for i, _ in lb]
                if len(la) < 2 or any(t1 < t2 for t1, t2 in zip(tb_, tb_[1:])):
                    perm_only = False
                if not perm_only:
                    break
        if perm_only:
            bad.append((K9_SIG, "rows %r: per-row derived_state / node differ from the input although every site "
                        "holds the same mutations (tskit re-sorted them by the new times)" % (rowwise[:6],)))
        else:
            i = rowwise[0]
            bad.append(("c02:mutation-row-changed", "row %d: (site, derived_state, node) %r -> %r" % (i, ra[i], rb[i])))
    return bad


def report(ctx, its, ots, unphased, payload):
    """payload: a function building the replay record (only called when something is wrong)"""
    bad = frame_check(its, ots, unphased)
    if bad:
        pl = payload()
        for sig, detail in bad:
            ctx.oracle_fail(sig, detail, pl)


# ----------------------------------------------------------------------------- (a) get_modified_ts
def decorated_input(rng, ctx, kinds=None, edge_md=True, migrations=None, extras=None, multi=None):
    multi = rng.random() < 0.5 if multi is None else multi
    extras = rng.random() < 0.5 if extras is None else extras
    kw = dict(multi=multi, extras=extras, min_muts=2)
    if extras and migrations is not None:
        kw["migrations"] = migrations
    ts = G.maybe_permuted(rng, G.maybe_root_mutations(rng, G.pooled_ts(rng, size=ctx.n(10, 40), **kw), 0.45), 0.4)
    tables = ts.dump_tables()
    kn, km = rng.choice(kinds or G.KINDS), rng.choice(kinds or G.KINDS)
    G.decorate(tables.nodes, kn, rng)
    G.decorate(tables.mutations, km, rng)
    G.decorate_extras(tables, rng, edge_md=edge_md)
    if rng.random() < 0.5:
        tables.time_units = rng.choice(["uncalibrated", "years", "generations"])
    return tables.tree_sequence(), kn, km


def fabricate(rng, its, cls):
    from tsdate import core
    n, k = its.num_nodes, its.num_mutations
    style = rng.choice(["scaled", "noise", "ties", "reverse"])
    t0 = np.array(its.nodes_time)
    if style == "scaled":
        mean = t0 * rng.choice([0.5, 1.0, 3.0, 100.0]) + 0.0
    elif style == "noise":
        mean = np.abs(t0 + np.array([rng.gauss(0, 0.7) for _ in range(n)]))
    elif style == "ties":
        mean = np.array([float(rng.randint(0, 3)) for _ in range(n)])
    else:
        mean = t0.max() - t0
    s = list(its.samples())
    mean[s] = t0[s]
    mnode = np.array(its.mutations_node)
    switched = False
    if cls == "variational_gamma" and rng.random() < 0.5:
        for m in range(k):
            if rng.random() < 0.4 and (its.nodes_flags[mnode[m]] & 1):
                mnode[m] = rng.choice(s)
                switched = True
    var = np.array(G.random_values(rng, n, "plain"))
    if cls == "variational_gamma":
        return core.Results(mean, var, np.array(G.random_values(rng, k, rng.choice(["plain", "special"]))),
                            np.array(G.random_values(rng, k, rng.choice(["plain", "special"]))), None, mnode, None), switched
    if cls == "inside_outside":
        return core.Results(mean, var, None, None, 0.0, mnode, None), switched
    return core.Results(mean, None, None, None, 0.0, mnode, None), switched


def prov_shape(V, before, ots):
    out = []
    for i, p in enumerate(ots.provenances()):
        row = (p.timestamp, p.record)
        if i < len(before) and row == before[i]:
            out.append([("old", 1000 + i)])
        else:
            par = json.loads(p.record)["parameters"]
            names = {"variational_gamma": -1, "inside_outside": -2, "maximization": -3}
            out.append([(k, names.get(v, -9) if k == "command" else V(v)) for k, v in par.items()])
    return out


def run_modified(ctx, model_ok):
    rng = ctx.rng
    V = P.Values()
    todo = []
    for _ in range(ctx.n(150, 1200)):
        cls = rng.choice(["variational_gamma", "variational_gamma", "inside_outside", "maximization"])
        its, kn, km = decorated_input(rng, ctx, kinds=None if rng.random() < 0.2 else SAFE_KINDS)
        sm = rng.choice([None, True, False])
        kw = {}
        if rng.random() < 0.5:
            kw["time_units"] = rng.choice(["years", "generations", "ky"])
        if rng.random() < 0.5:
            kw["record_provenance"] = rng.choice([True, False, None])
        if rng.random() < 0.5:
            kw["constr_iterations"] = rng.choice([0, 1, 5, 100])
        if rng.random() < 0.5:
            kw["min_branch_length"] = rng.choice([1e-8, 1e-3, 0.5])
        method = G.make_method(its, sm, cls, **kw)
        if method.provenance_params is not None and rng.random() < 0.7:
            method.provenance_params.update({"max_iterations": 3, "extra": [1, 2]})   # what run() would add
        res, switched = fabricate(rng, its, cls)
        mc = G.ModCase(its, method, res, V)
        desc = {"level": "get_modified_ts", "method": cls, "set_metadata": sm, "node_kind": kn, "mutation_kind": km,
                "kwargs": {k: repr(v) for k, v in kw.items()}, "nodes": its.num_nodes, "mutations": its.num_mutations,
                "migrations": its.num_migrations, "multi_mutation_sites": sum(len(s.mutations) > 1 for s in its.sites()),
                "mean": [float(x) for x in res.posterior_mean][:8], "mutation_node": [int(x) for x in res.mutation_node][:12]}
        extra = method.provenance_params is not None and "extra" in method.provenance_params

        def payload(desc=desc, its=its, cls=cls, sm=sm, kw=dict(kw), res=res, switched=switched, extra=extra):
            return dict(desc, replay={"fn": "get_modified", "tables": G.tc_to_json(its.dump_tables()), "cls": cls,
                                      "sm": sm, "kw": G.plain(kw), "extra_params": extra,
                                      "res": G.results_to_json(res), "switched": switched})
        exc = ots = None
        try:
            ots = method.get_modified_ts(res)
        except Exception as e:   # noqa: BLE001
            exc = e
        changed = ots is not None and not np.array_equal(ots.nodes_time, its.nodes_time)
        ctx.case(desc, nontrivial=changed, kind="modified/%s/%s" % (cls, "raised" if exc is not None else "ok"))
        if ots is not None:
            report(ctx, its, ots, unphased="any" if switched else False, payload=payload)
        todo.append((mc, its, ots, exc, payload, V))
    if not model_ok:
        return
    CH = 60
    for i in range(0, len(todo), CH):
        chunk = todo[i:i + CH]
        body = "From Coq Require Import String.\nDefinition cases := %s.\nEval vm_compute in cases.\n" % clist(
            [c[0].coq_term() for c in chunk])
        model = ctx.coq_eval(body, requires=("model.Glue",), tag="modified")[0]
        for (mc, its, ots, exc, payload, V), m in zip(chunk, model):
            import _tskit
            pred = perr = None
            try:
                pred, code = mc.apply(m)
            except _tskit.LibraryError as e:
                perr = e
            if exc is not None:
                if isinstance(exc, _tskit.LibraryError):
                    ok = perr is not None or (pred is not None and _invalid(pred))
                    ctx.corr("get_modified_ts", ok, "impl raised %r; model output passes tskit" % (exc,),
                             replay=None if ok else payload())
                else:
                    ok = pred is None and perr is None
                    ctx.corr("get_modified_ts", ok, "impl raised %r; model=%r" % (exc, m[:2]),
                             replay=None if ok else payload())
                continue
            if pred is None:
                ctx.corr("get_modified_ts", False, "impl returned, model fails with code %r (tskit error %r)" % (
                    m[1][0] if m[0] == 1 else None, perr), replay=payload())
                continue
            diff = G.table_diff(pred, ots.tables)
            # provenance: earlier rows kept, new row's parameter dict
            before = P.prov_rows(its)
            a = prov_shape(V, before, ots)
            b = [[(k[1].strip('"') if isinstance(k, tuple) else k, v) for k, v in rec] for rec in mc.pred_provs]
            if a != b:
                diff.append("provenances: impl=%r model=%r" % (a, b))
            ctx.corr("get_modified_ts", not diff, "columns that differ from the model: %r" % (diff,),
                     replay=payload() if diff else None)


def _invalid(pred):
    import _tskit
    try:
        pred.tree_sequence()
        return False
    except _tskit.LibraryError:
        return True


# ----------------------------------------------------------------------------- (b) date()
def run_date(ctx):
    import tsdate
    import _tskit
    rng = ctx.rng
    total = raised = 0
    for _ in range(ctx.n(200, 2000)):
        total += 1
        method = rng.choice(["variational_gamma", "variational_gamma", "inside_outside", "maximization"])
        discrete = method != "variational_gamma"
        its, kn, km = decorated_input(rng, ctx, kinds=SAFE_KINDS, edge_md=not discrete,
                                      migrations=False if discrete else None)
        kw = dict(mutation_rate=rng.choice([0.05, 0.5, 5.0]), method=method)
        for k, vals in (("set_metadata", [None, True, False]), ("time_units", ["years", None]),
                        ("constr_iterations", [0, 3]), ("min_branch_length", [1e-8, 0.01]),
                        ("record_provenance", [True, False]), ("allow_unary", [False])):
            if rng.random() < 0.5:
                kw[k] = rng.choice(vals)
        unphased = False
        if discrete:
            kw["population_size"] = rng.choice([1.0, 10.0])
            if rng.random() < 0.3:
                kw["probability_space"] = rng.choice(["linear", "logarithmic"])
        else:
            kw.update(max_iterations=rng.choice([1, 3]), rescaling_intervals=rng.choice([0, 0, 2]))
            diploid = its.num_individuals > 0 and all(len(i.nodes) == 2 for i in its.individuals()) and \
                all(its.nodes_time[u] == 0 for i in its.individuals() for u in i.nodes)
            if diploid and rng.random() < 0.7:
                kw["singletons_phased"] = False
                unphased = True
            if rng.random() < 0.3:
                kw["match_segregating_sites"] = True
        desc = {"level": "date", "kwargs": {k: repr(v) for k, v in kw.items()}, "node_kind": kn, "mutation_kind": km,
                "nodes": its.num_nodes, "mutations": its.num_mutations, "migrations": its.num_migrations,
                "individuals": its.num_individuals,
                "mutations_above_a_root": int(sum(1 for m in its.mutations() if its.at(its.site(m.site).position).parent(m.node) == -1)),
                "multi_mutation_sites": sum(len(s.mutations) > 1 for s in its.sites())}
        def payload(desc=desc, its=its, kw=dict(kw), unphased=unphased):
            return dict(desc, replay={"fn": "date", "tables": G.tc_to_json(its.dump_tables()), "kw": G.plain(kw),
                                      "unphased": unphased})
        try:
            ots = tsdate.date(its, **kw)
        except Exception as e:   # noqa: BLE001 - raising is C35's business
            ctx.tally("date-raised(C35):%s" % type(e).__name__)
            raised += 1
            ctx.case(desc, nontrivial=False, kind="date/%s/raised" % method)
            continue
        changed = not np.array_equal(ots.nodes_time, its.nodes_time)
        moved = int(np.sum(ots.mutations_node != its.mutations_node)) if unphased else 0
        ctx.case(desc, nontrivial=changed, kind="date/%s/%s" % (method, "unphased" if unphased else "phased"))
        if moved:
            ctx.tally("date/unphased-runs-with-moved-singletons")
        report(ctx, its, ots, unphased, payload)
    if total >= 20 and raised > total // 2:
        ctx.tie_fail("correspondence", "date() raises on most inputs", "%d of %d runs raised: %r" % (raised, total, ctx.dist))


def run(ctx, model_ok=True):
    G.quiet_logging()
    run_modified(ctx, model_ok)
    run_date(ctx)


def search(ctx):
    run_modified(ctx, False)
    if not ctx.oracle_fails:
        run_date(ctx)


def replay(ctx, data):
    """re-run one saved case; True iff the statement of C02 holds on it"""
    import tsdate
    G.quiet_logging()
    case = data.get("case") or {}
    r = case.get("replay")
    if not r:
        print(json.dumps(case, indent=1)[:3000])
        return False
    its = G.tc_from_json(r["tables"]).tree_sequence()
    if r["fn"] == "date":
        ots = tsdate.date(its, **G.unplain(r["kw"]))
        bad = frame_check(its, ots, r["unphased"])
    else:
        method = G.make_method(its, r["sm"], r["cls"], **G.unplain(r["kw"]))
        if r.get("extra_params") and method.provenance_params is not None:
            method.provenance_params.update({"max_iterations": 3, "extra": [1, 2]})
        ots = method.get_modified_ts(G.results_from_json(r["res"]))
        bad = frame_check(its, ots, "any" if r["switched"] else False)
    for sig, detail in bad:
        ctx.oracle_fail(sig, detail, None)
    return G.replay_verdict(ctx)
