"""C20 -- EP is exact in the conjugate (star) case."""
from fractions import Fraction

import numpy as np

from props import _ep as E
from vlib import gen
from vlib.coqfmt import cfloat, cnat, cQ, clist, cpair

ENV_BY_TIER = {"quick": {"NUMBA_DISABLE_JIT": "1"}, "thorough": {}}

RULE = ("star-like tree sequences built directly as tables (40% decorated by gen.exotic: all nodes renumbered, "
        "extra flag bits, mutations above the parents = on no edge, mutation-free sites, allele states, populations, "
        "unknown mutation times; half of the multi-tree stars have partially isolated samples: a sample loses its edge on "
        "an interior interval or up to the end of the sequence, with mutations above it inside and outside the isolated "
        "stretch, and mutations above the star parents where they are roots or absent -- none of these is on an edge): "
        "2-8 samples at time 0, 1-4 trees, each tree a "
        "subset (>= 2) of the samples under one non-sample parent (a parent may span several trees), skewed "
        "per-sample mutation counts (0..hundreds) x mutation_rate x max_shape (2..1e4, so both uncapped and "
        "capped) x min_step x 1-10 iterations; run (a) by ExpectationPropagation.iterate directly and (b) through "
        "tsdate.date(variational_gamma, regularise_roots=False, rescaling off by intervals=0 or by iterations=0, numpy-typed "
        "option scalars on 30%, max_shape up to inf). Non-trivial when there is "
        "at least one mutation; distinct by content hash. The closed form tallies mutations and spans per parent from the "
        "tables with the tskit Tree API (a mutation counts only if an edge parent->node covers its position)")
ASSUME = ["finiteness tests of _valid_gamma/_valid_moments are not modelled (finite inputs only)",
          "the float model reproduces the operation order of rootward_moments/approximate_gamma_mom; compared at "
          "1e-12 relative, the exact rational model at 1e-12 relative"]
RTOL = 1e-12


def make_case(rng, capped=None):
    ts = E.star_ts2(rng)
    # valid-but-unusual decorations (node renumbering: samples are no longer ids 0..n-1; mutations above
    # the parents, which sit on no edge and must not be counted; flag bits; empty sites; states; populations)
    ts, applied = E.decorate(rng, ts)
    import tskit
    offedge = 0
    tree = tskit.Tree(ts)
    for site in ts.sites():
        tree.seek(site.position)
        offedge += sum(1 for m in site.mutations if tree.edge(m.node) == tskit.NULL)
    capped = rng.random() < 0.35 if capped is None else capped
    return {"ts": E.ts_dict(E.ts_of(E.ts_dict(ts))), "kind": "star", "exotic": applied, "mutations_on_no_edge": offedge,
            "opts": {"mutation_rate": rng.choice([1e-3, 1e-2, 0.1, 1.0, 0.37]),
                     "singletons_phased": True,
                     "max_shape": rng.choice([2.0, 5.0, 20.0]) if capped else rng.choice([1000.0, 1e4, float("inf")]),
                     "min_step": rng.choice([0.1, 0.1, 0.5, 0.01, 0.9]),
                     "regularise": False,
                     "np_types": rng.random() < 0.3,
                     "no_rescale": rng.choice(["intervals", "iterations"]),
                     "iterations": rng.choice([1, 1, 2, 3, 10])}}


def run_direct(case):
    """ExpectationPropagation.iterate k times; returns (static, node_posterior) or an error string"""
    ts = E.case_ts(case)
    o = case["opts"]
    try:
        ep = E.new_ep(ts, o)
        for _ in range(o["iterations"]):
            ep.iterate(max_shape=o["max_shape"], min_step=o["min_step"], regularise=False)
    except AssertionError:
        return "assert"
    return E.static_of(ep), np.array(ep.node_posterior, dtype=float)


def run_date(case):
    import tsdate
    ts = E.case_ts(case)
    o = case["opts"]
    f = (lambda x: np.float64(x)) if o.get("np_types") else (lambda x: x)
    i = (lambda x: np.int64(x)) if o.get("np_types") else (lambda x: x)
    b = (lambda x: np.bool_(x)) if o.get("np_types") else (lambda x: x)
    # "without rescaling": either count exactly 0
    resc = dict(rescaling_intervals=i(0)) if o.get("no_rescale", "intervals") == "intervals" \
        else dict(rescaling_intervals=i(7), rescaling_iterations=i(0))
    _d, fit = tsdate.date(ts, mutation_rate=f(o["mutation_rate"]), method="variational_gamma",
                          max_iterations=i(o["iterations"]), max_shape=f(o["max_shape"]), regularise_roots=b(False),
                          singletons_phased=b(True), return_fit=True, progress=False, **resc)
    return fit


def oracle(ctx, case, post, how):
    """closed form on the implementation's posterior (natural parameters alpha = shape - 1, beta)"""
    ts = E.case_ts(case)
    o = case["opts"]
    y, mu = E.star_closed_form(ts, o["mutation_rate"])
    S = o["max_shape"]
    for p in sorted(y):
        a, b = float(post[p][0]), float(post[p][1])
        yp, mp = float(y[p]), float(mu[p])
        if 1 + yp <= S:
            if not (abs(a - yp) <= RTOL * max(1.0, yp) and abs(b - mp) <= RTOL * mp):
                ctx.oracle_fail("uncapped-not-exact:" + how,
                                "parent %d: posterior (%r, %r), closed form (%r, %r)" % (p, a, b, yp, mp),
                                {"case": case, "how": how})
                return
        else:
            ctx.tally("capped-parent")
            if not abs((a + 1) - S) <= 1e-9 * S:
                ctx.oracle_fail("capped-shape:" + how, "parent %d: shape %r, max_shape %r" % (p, a + 1, S),
                                {"case": case, "how": how})
                return
            eta = (S - 1) / yp
            if not abs(b - eta * mp) <= 1e-9 * eta * mp:
                ctx.oracle_fail("capped-not-uniform",
                                "parent %d: rate %r, uniformly scaled closed form %r" % (p, b, eta * mp),
                                {"case": case, "how": how})
    for u in ts.samples():
        if post[u][0] != 0.0 or post[u][1] != 0.0:
            ctx.oracle_fail("sample-posterior:" + how, "sample %d has a non-zero posterior" % u,
                            {"case": case, "how": how})
            return


def qfrac(x):
    f = Fraction(float(x))
    return cQ(f.numerator, f.denominator)


def model_terms(case, static):
    o = case["opts"]
    edges = clist(static["edges"], lambda e: cpair(cnat(e[0]), cnat(e[1])))
    k = cnat(o["iterations"])
    fl = "run_conj FNum %s infinity %s %s %s %s %s %s" % (
        cfloat(E.TINY), edges, clist(static["constraints"], E.cv2), clist(static["elik"], E.cv2),
        cfloat(o["max_shape"]), cfloat(o["min_step"]), k)
    # exact instance: a free node's upper bound (inf) is replaced by lower + 1 (only == is used)
    cons = clist(static["constraints"],
                 lambda c: cpair(qfrac(c[0]), qfrac(c[1]) if np.isfinite(c[1]) else qfrac(c[0] + 1)))
    if not np.isfinite(o["max_shape"]):
        return fl, None
    q = ("option_map (map (fun v : Q * Q => (Qnum (fst v), Zpos (Qden (fst v)), Qnum (snd v), Zpos (Qden (snd v))))) "
         "(run_conj QNum (1 # 1000000000000) (1000000000000 # 1) %s %s %s %s %s %s)") % (
        edges, cons, clist(static["elik"], lambda v: cpair(qfrac(v[0]), qfrac(v[1]))),
        qfrac(o["max_shape"]), qfrac(o["min_step"]), k)
    return fl, q


def qval(x):
    if isinstance(x, tuple) and x and x[0] == "Q":
        return Fraction(int(x[1]), int(x[2]))
    return Fraction(x)


def correspondence(ctx, items):
    """items: (case, static, post).  Float model at 1e-12 (bit-exactness is tallied), exact
    rational model at 1e-12 (uncapped, or capped with one iteration and <= 10 edges: capped denominators explode)"""
    chunk = 10
    for k0 in range(0, len(items), chunk):
        part = items[k0:k0 + chunk]
        body = ""
        useq = []
        for j, (c, s, post) in enumerate(part):
            fl, q = model_terms(c, s)
            # exact rationals: uncapped runs stay small; capped ones explode (denominators grow with every visit)
            doq = np.isfinite(c["opts"]["max_shape"]) and (
                c["opts"]["max_shape"] >= 1000 or (c["opts"]["iterations"] <= 1 and len(s["edges"]) <= 10))
            useq.append(doq)
            body += "Eval vm_compute in (%s).\n" % fl
            if doq:
                body += "Eval vm_compute in (%s).\n" % q
        res = ctx.coq_eval(body, requires=("lib.Num", "model.EP", "model.EPConj"), tag="conj", timeout=900)
        it = iter(res)
        for (c, s, post), doq in zip(part, useq):
            rf = next(it)
            rq = next(it) if doq else None
            for name, r in (("conj-float", rf), ("conj-exact", rq)):
                if r is None and name == "conj-exact" and not doq:
                    continue
                if r is None:
                    ctx.corr(name, False, "model asserts, implementation returns", replay={"case": c})
                    continue
                rows = r[1]
                if name == "conj-exact":   # (num, den, num, den): Coq would print dyadic rationals in hex
                    vals = [(float(Fraction(int(a), int(b))), float(Fraction(int(c_), int(d)))) for a, b, c_, d in rows]
                else:
                    vals = [(float(a), float(b)) for a, b in rows]
                va = np.array(vals)
                # shape = alpha + 1 and rate are compared relatively (alpha itself can be 0)
                ok = E.close(va[:, 0] + 1, post[:, 0] + 1, RTOL) and E.close(va[:, 1], post[:, 1], RTOL)
                ctx.corr(name, ok, "impl %r model %r" % (post.tolist(), vals), replay={"case": c})
                if name == "conj-float":
                    ctx.tally("float-bit-exact" if np.array_equal(np.array(vals), post) else "float-within-1e-12")


def run(ctx, model_ok=True):
    n = ctx.n(40, 300)
    cases = [make_case(ctx.rng) for _ in range(n)]
    # the K1 star of DESIGN.md section 9 (corpus case): counts 30, 2, 0, 5
    items = []
    for c in cases:
        r = run_direct(c)
        ts = c["ts"]
        desc = {"samples": sum(1 for f in ts["nodes_flags"] if f & 1), "edges": len(ts["edges"]),
                "mutations": len(ts["mutations"]), "opts": c["opts"], "exotic": c.get("exotic", [])}
        for k in c.get("exotic", []):
            ctx.tally("exotic-" + k)
        ctx.tally("mutations-on-no-edge", c.get("mutations_on_no_edge", 0))
        if c.get("mutations_on_no_edge"):
            ctx.tally("inputs-with-isolated-or-root-mutations")
        if isinstance(r, str):
            ctx.case(desc, nontrivial=False, kind="direct/" + r)
            ctx.oracle_fail("assertion:direct", "iterate() raised AssertionError on a star input", {"case": c, "how": "direct"})
            continue
        static, post = r
        capped = c["opts"]["max_shape"] < 1000
        ctx.case(desc, nontrivial=len(ts["mutations"]) > 0, kind="direct/" + ("small-cap" if capped else "uncapped"))
        oracle(ctx, c, post, "direct")
        items.append((c, static, post))
    if model_ok:
        correspondence(ctx, items)
    for c in cases[: ctx.n(20, 150)]:
        try:
            fit = run_date(c)
        except Exception as e:
            ctx.tally("date-raised-" + type(e).__name__)
            if isinstance(e, ValueError) and not c["ts"]["mutations"]:
                continue    # "No mutations present": the input is rejected, nothing is claimed
            ctx.oracle_fail("exception:date", "date() raised %s on a star input: %s" % (type(e).__name__, str(e)[:100]),
                            {"case": c, "how": "date"})
            continue
        post = np.array(fit.node_posterior, dtype=float)
        # reported moments must be the same gamma
        mn, va = fit.node_moments()
        ctx.case({"date": True, "opts": c["opts"], "edges": len(c["ts"]["edges"])}, nontrivial=len(c["ts"]["mutations"]) > 0, kind="date")
        oracle(ctx, c, post, "date")
        free = np.array([not (f & 1) for f in c["ts"]["nodes_flags"]])
        with np.errstate(all="ignore"):
            if not (E.close(mn[free] ** 2 / va[free], post[free, 0] + 1, 1e-9) and E.close(mn[free] / va[free], post[free, 1], 1e-9)):
                ctx.oracle_fail("moments-mismatch", "node_moments() is not the gamma of node_posterior", {"case": c, "how": "date"})


def search(ctx):
    for _ in range(ctx.n(300, 1500)):
        c = make_case(ctx.rng)
        r = run_direct(c)
        if isinstance(r, str):
            ctx.oracle_fail("assertion:direct", "iterate() raised AssertionError on a star input", {"case": c, "how": "direct"})
        else:
            oracle(ctx, c, r[1], "direct")
        if ctx.oracle_fails:
            return


def replay(ctx, data):
    payload = data["case"]
    case = payload["case"]
    before = len(ctx.oracle_fails)
    if payload.get("how") == "date":
        try:
            fit = run_date(case)
        except Exception:
            return False
        oracle(ctx, case, np.array(fit.node_posterior, dtype=float), "date")
    else:
        r = run_direct(case)
        if isinstance(r, str):
            return False
        oracle(ctx, case, r[1], "direct")
    return len(ctx.oracle_fails) == before
