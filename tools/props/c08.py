"""C08 -- dates depend only on topology, sample times and mutation placement."""
import json
import numpy as np
from props import _dating as D
from props import c07 as C7

ENV_BY_TIER = {"quick": {"NUMBA_DISABLE_JIT": "1"}, "thorough": {}}
LEVEL = "proof"
RULE = ("front end: model/FrontEnd.v on binary64 == the implementation's ExpectationPropagation attributes on inputs with "
        "arbitrary flag words, internal/historical/renumbered samples, root mutations, mutation-free sites, isolated nodes; "
        "differential: every method on ts and on copies that differ only in data outside the projection pi -- "
        "ancestral/derived states, populations, mutation-free sites, provenance, metadata of every table (with "
        "permissive JSON schemas), input mutation times, individuals (phased case only) -- results must be "
        "bit-identical; plus the extraction tie of C07 (count_mutations == reference semantics on pi); "
        "non-trivial = both runs returned and >= 2 perturbations applied")
ASSUME = ["the theorems cover the variational front end; that the algorithms downstream read nothing else from the tables is decided by the differential check",
          "perturbed node/mutation metadata uses permissive JSON schemas so that mn/vr are still written (policy of C32)"]

PERTURBATIONS = ["states", "populations", "monomorphic_sites", "provenance", "metadata", "mutation_times",
                 "individuals", "site_metadata", "edge_metadata", "node_flag_bits"]


def perturb(rng, ts, kinds, phased=True):
    import tskit
    t = ts.dump_tables()
    if "states" in kinds:
        anc = [rng.choice(["A", "C", "G", "T", "", "xyz"]) for _ in range(t.sites.num_rows)]
        t.sites.packset_ancestral_state(anc)
        der = [rng.choice(["A", "C", "G", "T", "1", "long-allele"]) for _ in range(t.mutations.num_rows)]
        t.mutations.packset_derived_state(der)
    if "populations" in kinds:
        t.populations.clear()
        t.populations.metadata_schema = tskit.MetadataSchema.permissive_json()
        k = rng.randint(1, 3)
        for _ in range(k):
            t.populations.add_row(metadata={"name": "p%d" % _, "description": None})
        t.nodes.population = np.array([rng.randrange(k) for _ in range(t.nodes.num_rows)], dtype=np.int32)
    if "monomorphic_sites" in kinds:
        used = set(float(x) for x in t.sites.position)
        L = int(ts.sequence_length)
        free = [x for x in range(L) if float(x) not in used]
        rng.shuffle(free)
        k = rng.randint(1, 3)
        surplus = t.mutations.num_rows - t.sites.num_rows
        if surplus > 0 and rng.random() < 0.6:
            # as many mutation-free sites as there are surplus mutations on multi-mutation sites, so that
            # num_sites == num_mutations although sites and mutations do not correspond one to one
            k = surplus
        for x in free[:k]:
            t.sites.add_row(position=float(x), ancestral_state="N")
    if "provenance" in kinds:
        t.provenances.add_row(record=json.dumps({"software": {"name": "perturb"}, "n": rng.random()}))
    if "metadata" in kinds:
        t.metadata_schema = tskit.MetadataSchema.permissive_json()
        t.metadata = {"note": "x" * rng.randint(0, 5)}
        t.nodes.metadata_schema = tskit.MetadataSchema.permissive_json()
        stale = rng.random() < 0.5   # rows that already carry mn/vr, as a previous dating run leaves behind
        def row(key, val):
            d = {key: val}
            if stale:
                d.update({"mn": 100.0 + rng.random(), "vr": 7.0})
            return json.dumps(d).encode()
        t.nodes.packset_metadata([row("foo", rng.randint(0, 9)) for _ in range(t.nodes.num_rows)])
        t.mutations.metadata_schema = tskit.MetadataSchema.permissive_json()
        t.mutations.packset_metadata([row("bar", rng.random()) for _ in range(t.mutations.num_rows)])
    if "node_flag_bits" in kinds:   # bits other than NODE_IS_SAMPLE
        fl = t.nodes.flags.copy()
        for u in range(t.nodes.num_rows):
            if rng.random() < 0.5:
                fl[u] |= rng.choice([1 << 20, 1 << 21, 1 << 16, 2])
        t.nodes.flags = fl
    if "site_metadata" in kinds:
        t.sites.packset_metadata([bytes([rng.randrange(256)]) for _ in range(t.sites.num_rows)])
    if "edge_metadata" in kinds:
        t.edges.packset_metadata([b"e%d" % rng.randrange(10) for _ in range(t.edges.num_rows)])
    if "mutation_times" in kinds:
        t.mutations.time = np.full(t.mutations.num_rows, tskit.UNKNOWN_TIME)
    if "individuals" in kinds and phased:
        t.individuals.clear()
        ind = np.full(t.nodes.num_rows, tskit.NULL, dtype=np.int32)
        samples = list(ts.samples())
        rng.shuffle(samples)
        for i in range(0, len(samples) - 1, 2):
            if rng.random() < 0.7:
                j = t.individuals.add_row(flags=rng.randint(0, 3))
                ind[samples[i]] = j
                ind[samples[i + 1]] = j
        t.nodes.individual = ind
    t.sort()
    t.build_index()
    t.compute_mutation_parents()
    return t.tree_sequence()


def one(ctx, rng):
    from vlib import gen
    method = rng.choice(D.METHODS)
    vg = method == "variational_gamma"
    # samples that are ancestors / historical exercise the least-squares constraint phase, the one
    # place where per-node sample status is re-derived from the flags
    ts = D.datable_ts(rng, historical=(vg and rng.random() < 0.4), internal=(vg and rng.random() < 0.5),
                      big=rng.random() < 0.15)
    if vg and rng.random() < 0.4:
        from vlib import gen as _g
        ts = _g.add_root_mutations(rng, ts)   # undatable mutations: their posterior is NaN
    kw = D.method_options(rng, method, ts)
    if vg and rng.random() < 0.5:
        kw["constr_iterations"] = rng.choice([1, 5, 50])
    kinds = rng.sample(PERTURBATIONS, rng.randint(1, len(PERTURBATIONS)))
    if vg and rng.random() < 0.5 and "node_flag_bits" not in kinds:
        kinds.append("node_flag_bits")
    if rng.random() < 0.5 and "monomorphic_sites" not in kinds:
        kinds.append("monomorphic_sites")
    if rng.random() < 0.4 and "metadata" not in kinds:
        kinds.append("metadata")
    seed2 = rng.randrange(10**9)
    import random
    ts2 = perturb(random.Random(seed2), ts, kinds)
    desc = {"method": method, "opts": D.jsonable_opts(kw), "ts": gen.ts_summary(ts), "perturb": sorted(kinds)}
    r = D.call(method, ts, **kw)
    r2 = D.call(method, ts2, **kw)
    replay = {"ts": gen.ts_tables_dict(ts), "method": method, "opts": D.jsonable_opts(kw), "kinds": kinds, "seed2": seed2}
    for k in kinds:
        ctx.tally("perturb/" + k)
    if r[0] != "ok" or r2[0] != "ok":
        ctx.case(dict(desc, outcome="%s / %s" % (r[1] if r[0] != "ok" else "ok", r2[1] if r2[0] != "ok" else "ok")),
                 nontrivial=False, kind="raise")
        if (r[0] == "ok") != (r2[0] == "ok") or (r[0] != "ok" and r[1:] != r2[1:]):
            sig = "outcome-differs"
            if "edge_metadata" in kinds and r2[0] != "ok" and r2[1] == "LibraryError" and "edges that have non-empty metadata" in r2[2]:
                sig = "edge-metadata-LibraryError/" + method
            ctx.oracle_fail(sig, "%s: %r vs %r after perturbing %s" % (method, r[:3] if r[0] != "ok" else "ok",
                            r2[:3] if r2[0] != "ok" else "ok", kinds), replay)
        return
    a, b = D.result_arrays(r[1]), D.result_arrays(r2[1])
    # (mutation rows are compared in the canonical (position, node, time) order of result_arrays)
    # posterior moments are read from the metadata a method WRITES: variational_gamma writes node and mutation
    # rows, inside_outside node rows only, maximization none; rows a method does not write pass through
    # unchanged (policy of C32), so stale input mn/vr there is not a dating result
    drop = {"variational_gamma": (), "inside_outside": ("mut_mn", "mut_vr"),
            "maximization": ("mut_mn", "mut_vr", "node_mn", "node_vr")}[method]
    for k in drop:
        a.pop(k, None)
        b.pop(k, None)
    d, key = D.max_rel_diff(a, b)
    ctx.case(dict(desc, max_rel_diff=d), nontrivial=len(kinds) >= 2, kind="ok/" + method)
    if d > 0.0:
        ctx.oracle_fail("result-depends-on-ignored-data", "%s: %s differs by %.3g after perturbing %s" % (method, key, d, kinds), replay)


def front_end_case(rng):
    """a tree sequence whose node table is as unlike a simulator's as tskit allows: extra flag bits, samples
    that are internal / historical / not the first ids, mutation-free sites, sometimes an isolated node"""
    from vlib import gen
    import tskit
    ts = gen.sim_ts(rng, n=rng.randint(2, 6), L=rng.choice([5, 20, 100]), historical=rng.random() < 0.4)
    if rng.random() < 0.4:
        ts = gen.internal_samples(rng, ts, k=rng.randint(1, 2))
    ts, applied = gen.exotic(rng, ts, kinds=("extra_flags", "permute_nodes", "root_mutations", "monomorphic_sites"), p=0.5)
    if rng.random() < 0.15:
        t = ts.dump_tables()
        t.nodes.add_row(flags=rng.choice([0, 1, 1 << 20]), time=float(rng.randint(0, 3)))
        ts = t.tree_sequence()
        applied.append("isolated_node")
    return ts, applied


def front_end_impl(ts, mu):
    import tsdate.variational as V
    try:
        ep = V.ExpectationPropagation(ts, mutation_rate=mu, allow_unary=True)
    except ValueError as e:
        return ("raise", str(e))
    return ("ok", {
        "constraints": [(float(a), float(b)) for a, b in ep.node_constraints],
        "roots": [bool(x) for x in ep.roots], "leaves": [bool(x) for x in ep.leaves],
        "unconstrained": [bool(x) for x in ep.unconstrained_roots],
        "mut_edges": [int(x) for x in ep.mutation_edges],
        "edge_inputs": [(int(round(a)), float(b)) for a, b in ep.edge_likelihoods]})


def front_end_tie(ctx, n):
    """model/FrontEnd.v evaluated on binary64 == the attributes of the implementation's ExpectationPropagation
    object, on inputs with arbitrary flag words"""
    from vlib import gen
    from vlib.coqfmt import cfloat, cnat, cZ, clist
    items = [front_end_case(ctx.rng) + (ctx.rng.choice([1.0, 0.5, 0.37, 1e-3]),) for _ in range(n)]
    terms = []
    for ts, applied, mu in items:
        ns = clist(list(zip(ts.nodes_flags, ts.nodes_time)), lambda x: "(%s, %s)" % (cZ(int(x[0])), cfloat(float(x[1]))))
        es = clist(list(ts.edges()), lambda e: "(%s, %s, %s, %s)" % (cfloat(e.left), cfloat(e.right), cnat(e.parent), cnat(e.child)))
        ss = clist([float(x) for x in ts.sites_position], cfloat)
        ms = clist(list(zip(ts.mutations_site, ts.mutations_node)), lambda m: "(%s, %s)" % (cnat(int(m[0])), cnat(int(m[1]))))
        terms.append("front_end_F %s %s %s %s %s" % (ns, es, ss, ms, cfloat(mu)))
    res = []
    for k in range(0, len(terms), 50):
        res += ctx.coq_eval("Eval vm_compute in %s.\n" % clist(terms[k:k + 50]), requires=("lib.Num", "model.Inputs", "model.FrontEnd"),
                            tag="frontend%d" % k)[0]
    for (ts, applied, mu), m in zip(items, res):
        samples, cs, valid, (roots, leaves, disconnected, unconstrained), pl, medges, einputs = m
        rp = {"ts": gen.ts_tables_dict(ts), "mu": mu, "applied": applied}
        for a in applied:
            ctx.tally("front-end/" + a)
        ok = [int(x) for x in samples] == [int(u) for u in ts.samples()]
        ctx.corr("ts.samples() == model samples", ok, "model=%r impl=%r" % (samples, list(ts.samples())), replay=rp)
        pos = ts.sites_position[ts.mutations_site]
        ipl = [(float(x), int(u)) for x, u in zip(pos, ts.mutations_node)]
        mpl = [(float(o[1][0]), int(o[1][1])) if o is not None else None for o in pl]
        ctx.corr("mutation placements == model", ipl == mpl, "impl=%r model=%r" % (ipl, mpl), replay=rp)
        r = front_end_impl(ts, mu)
        if r[0] == "raise":
            expect = (not valid) or disconnected
            ctx.corr("front end raises iff the model says invalid/disconnected", expect and
                     (("disconnected" in r[1]) == (valid and disconnected)), "impl raised %r; model valid=%r disconnected=%r" % (r[1], valid, disconnected), replay=rp)
            ctx.case({"front_end": "raise", "msg": r[1][:60], "applied": applied}, nontrivial=True, kind="front-end/raise")
            continue
        d = r[1]
        mcs = [(float(a), float("inf") if b is None else float(b[1])) for a, b in cs]
        ok = (valid and not disconnected and mcs == d["constraints"] and [bool(x) for x in roots] == d["roots"]
              and [bool(x) for x in leaves] == d["leaves"] and [bool(x) for x in unconstrained] == d["unconstrained"]
              and [(-1 if o is None else int(o[1])) for o in medges] == d["mut_edges"]
              and [(int(k), float(v)) for k, v in einputs] == d["edge_inputs"])
        ctx.corr("ExpectationPropagation front end == model/FrontEnd.v (binary64)", ok,
                 "impl=%r model=%r" % (d, (valid, disconnected, mcs, roots, leaves, unconstrained, medges, einputs)), replay=rp)
        ctx.case({"front_end": "ok", "ts": gen.ts_summary(ts), "applied": applied}, nontrivial=len(applied) >= 1, kind="front-end/ok")


def run(ctx, model_ok=True):
    if model_ok:
        front_end_tie(ctx, ctx.n(60, 400))
    # extraction layer == reference semantics on pi (shared with C07)
    tss = [C7.extraction_case(ctx.rng) for _ in range(ctx.n(40, 300))]
    if model_ok:
        from vlib import gen
        model = C7.extraction_model(ctx, tss)
        for ts, (me, st) in zip(tss, model):
            ime, ist = C7.extraction_impl(perturb(ctx.rng, ts, ["states", "metadata", "provenance", "populations"]))
            ok = ime == me and len(ist) == len(st) and all(x[0] == y[0] and x[1] == y[1] for x, y in zip(ist, st))
            ctx.corr("count_mutations-on-perturbed-input == model(pi)", ok, "impl=%r model=%r" % ((ime, ist), (me, st)),
                     replay={"ts": gen.ts_tables_dict(ts)})
    for _ in range(ctx.n(120, 1000)):
        one(ctx, ctx.rng)


def search(ctx):
    for _ in range(ctx.n(400, 2000)):
        one(ctx, ctx.rng)
        if ctx.oracle_fails:
            return


def replay(ctx, data):
    import random
    from vlib import gen
    c = data["case"]
    ts = gen.ts_from_dict(c["ts"])
    ts2 = perturb(random.Random(c["seed2"]), ts, c["kinds"])
    r, r2 = D.call(c["method"], ts, **c["opts"]), D.call(c["method"], ts2, **c["opts"])
    if r[0] != "ok" or r2[0] != "ok":
        return r[0] == r2[0]
    return np.array_equal(r[1].nodes_time, r2[1].nodes_time)
