"""C16 -- discretised prior grids hold the right probability masses."""
import math

from props import _prior as K
from vlib import gen
from vlib.coqfmt import cfloat, cnat, cbool, clist

ENV_BY_TIER = {"quick": {"NUMBA_DISABLE_JIT": "1"}, "thorough": {}}

RULE = ("msprime tree sequences (2-9 contemporaneous samples, 1-1000 bp, recombination, Kingman/Beta/Dirac mergers "
        "=> polytomies) decorated with valid-but-unusual features: ~45% through gen.exotic (extra node flag bits, all node ids "
        "renumbered, mutations above roots, monomorphic sites, unknown mutation times, arbitrary alleles, populations), 30% "
        "renumbered, 15% with tied node times, 12% with a unary chain above a root (allow_unary=True); 12% with "
        "approximate_priors=True, approx_prior_size in {10,100,1000} in a private XDG_CACHE_HOME, cold vs warm grid compared bit "
        "for bit; population size passed as int / float / np.float64 / 1-element array / PopulationSizeHistory (same object "
        "reused); a MixturePrior object reused for a second grid; plus, ORACLE ONLY (no Coq evaluation: too big for literals), "
        "3 (quick) / 6 (thorough) size-regime cases: 20-40 samples with recombination (20-80 non-sample nodes) and very fine "
        "explicit grids (linspace / geometric, up to ~100000 points) or integer requests up to 1500 quantiles such that nodes x "
        "timepoints crosses 2^16, 2^18, 2^20, 2^21, constant and two-epoch sizes, and in the thorough tier one single-tree input "
        "with >= 56000 non-sample nodes and the default grid (approximate priors); every clause of the oracle on every row; x prior distribution (lognorm, gamma) x timepoints (integer 2..30, or an explicit grid: "
        "sorted or shuffled, starting at 0 or not, 2-12 values over 1e-3..1e5) x population size (scalar 0.5..1e4 or "
        "a 2-4 epoch PopulationSizeHistory); a case is non-trivial when the tree sequence has >= 2 non-sample nodes "
        "with different descendant counts or the thinning loop of create_timepoints adds a quantile")
ASSUME = ["scipy.stats lognorm/gamma cdf and ppf are taken as data: the harness calls them with the same parameters "
          "as the code (s = sqrt(beta), scale = exp(alpha) / a = alpha, scale = 1/beta) and hands the values to the model",
          "demography.PopulationSizeHistory.to_coalescent_timescale / to_natural_timescale are used as given "
          "(property C17); C16_user_grid / C16_count_grid take their exactness / monotonicity as hypotheses",
          "numpy.linspace(0, 1, m + 1)[1:-1] equals j * (1/m) (checked on every case)"]

REQ = ("lib.Num", "model.PriorGrid")
ULP4 = 4 * 2.220446049250313e-16


def dist_funcs(distr):
    import numpy as np
    import scipy.stats
    if distr == "lognorm":
        return (lambda t, a, b: scipy.stats.lognorm.cdf(t, s=np.sqrt(b), scale=np.exp(a)),
                lambda p, a, b: scipy.stats.lognorm.ppf(p, s=np.sqrt(b), scale=np.exp(a)))
    return (lambda t, a, b: scipy.stats.gamma.cdf(t, a, scale=1 / b),
            lambda p, a, b: scipy.stats.gamma.ppf(p, a, scale=1 / b))


def tie_times(rng, ts):
    """coarsen the node times so that unrelated non-sample nodes get EQUAL times (valid as long as every
    parent stays strictly older than its children); None if no coarsening is valid"""
    import numpy as np
    for c in (rng.choice([1, 2, 4]), 8, 16):
        t = ts.dump_tables()
        tm = np.ceil(np.array(t.nodes.time) * c) / c
        t.nodes.time = tm
        try:
            import tskit
            t.sort()
            t.mutations.time = np.full(t.mutations.num_rows, tskit.UNKNOWN_TIME)
            out = t.tree_sequence()
        except Exception:
            continue
        nz = [x for x in tm if x > 0]
        if len(set(nz)) < len(nz):
            return out
    return None


def make_case(rng):
    """returns (case description for the replay file, the tree sequence actually used)"""
    n = rng.choice([2, 3, 3, 4, 5, 6, 7, 8, 9])
    ts = gen.sim_ts(rng, n=n, historical=False)
    deco = []
    allow_unary = False
    if rng.random() < 0.12:
        u = gen.unary_chain_ts(rng, ts)
        if u is not None:
            ts, allow_unary = u, True
            deco.append("unary_chain")
    if rng.random() < 0.3:
        t2 = tie_times(rng, ts)
        if t2 is not None:
            ts = t2
            deco.append("tied_times")
    if rng.random() < 0.3:
        # node ids carry no meaning: samples need not be ids 0..n-1 (forward simulators, subset())
        ts = gen.permute_nodes(rng, ts)
        deco.append("permute_nodes")
    if rng.random() < 0.45:
        ts, applied = gen.exotic(rng, ts, p=0.4)
        deco += applied
    distr = rng.choice(["lognorm", "gamma"])
    if rng.random() < 0.55:
        tp = rng.choice([2, 2, 3, 4, 5, 6, 8, 10, 15, 20, 20, 30])
    else:
        m = rng.randint(2, 12)
        scale = 10.0 ** rng.randint(-3, 4)
        vals = set()
        while len(vals) < m:
            vals.add(round(rng.random() * scale * 10, rng.randint(0, 6)) if rng.random() < 0.8
                     else float(rng.randint(1, 50)) * scale)
        vals.discard(0.0)
        vals = sorted(vals)
        if rng.random() < 0.8:
            vals = [0.0] + vals
        if rng.random() < 0.4:
            rng.shuffle(vals)
        tp = [float(v) for v in vals]
        if len(tp) < 2:
            tp = [0.0, 1.0]
    poptype = "float"
    if rng.random() < 0.6:
        pop = rng.choice([1.0, 0.5, 3.0, 100.0, 1e4, 1])
        poptype = rng.choice(["float", "float", "np.float64", "np.array"]) if isinstance(pop, float) else "int"
    else:
        e = rng.randint(2, 4)
        sizes = [rng.choice([0.5, 1.0, 10.0, 200.0, 5e3]) for _ in range(e)]
        br = sorted({round(rng.random() * 10.0 ** rng.randint(-1, 3), 3) + 0.001 for _ in range(e - 1)})
        while len(br) < e - 1:
            br.append(br[-1] + 1.0)
        pop = {"population_size": sizes, "time_breaks": br}
    approx = rng.choice([10, 100, 1000]) if rng.random() < 0.12 else None
    case = {"ts": gen.ts_tables_dict(ts), "distr": distr, "timepoints": tp, "pop": pop, "poptype": poptype,
            "deco": deco, "allow_unary": allow_unary, "approx": approx}
    return case, ts


def expand_tp(tp):
    """timepoints of a case: an int, a list of floats, or generator parameters of a fine grid (kept small in replays)"""
    import numpy as np
    if isinstance(tp, dict):
        if tp["kind"] == "linspace":
            return [float(x) for x in np.linspace(0.0, tp["hi"], tp["m"])]
        return [0.0] + [float(x) for x in np.geomspace(tp["lo"], tp["hi"], tp["m"] - 1)]
    return tp


def ts_of(case):
    d = case["ts"]
    if "msprime" in d:
        import msprime
        return msprime.sim_ancestry(samples=d["msprime"]["n"], ploidy=1, sequence_length=d["msprime"].get("L", 1),
                                    recombination_rate=d["msprime"].get("rec", 0.0), population_size=1.0,
                                    random_seed=d["msprime"]["seed"])
    return gen.ts_from_dict(d)


def pop_obj(pop):
    from tsdate import demography
    if isinstance(pop, dict):
        return demography.PopulationSizeHistory(**pop)
    return demography.PopulationSizeHistory(pop)


def same_grid(p, q):
    import numpy as np
    return (np.array_equal(np.array(p.timepoints), np.array(q.timepoints)) and
            np.array_equal(np.array(p.nonfixed_nodes), np.array(q.nonfixed_nodes)) and
            p.grid_data.shape == q.grid_data.shape and np.array_equal(p.grid_data, q.grid_data, equal_nan=True))


def run_impl(case, ts=None, workdir=None, light=False):
    """the public call + the intermediate objects of the same code path (inputs of the model)"""
    import os
    import shutil
    import numpy as np
    import tsdate
    import tsdate.prior as P
    if ts is None:
        ts = ts_of(case)
    tp = expand_tp(case["timepoints"])
    tp_arg = tp if isinstance(tp, int) else np.array(tp, dtype=float)
    pop = case["pop"]
    popo = pop_obj(pop)
    if isinstance(pop, dict):
        pop_arg = popo            # the SAME object is reused for every call below
    else:
        pt = case.get("poptype", "float")
        pop_arg = {"np.float64": np.float64(pop), "np.array": np.array([float(pop)])}.get(pt, pop)
    kw = {"prior_distribution": case["distr"]}
    if case.get("allow_unary"):
        kw["allow_unary"] = True
    extra = {}
    old_xdg = os.environ.get("XDG_CACHE_HOME")
    try:
        if case.get("approx"):
            d = os.path.join(workdir or "/tmp", "xdg_c16")
            shutil.rmtree(d, ignore_errors=True)
            os.makedirs(d)
            os.environ["XDG_CACHE_HOME"] = d
            kw.update(approximate_priors=True, approx_prior_size=case["approx"])
        with np.errstate(all="ignore"):
            prior = tsdate.build_prior_grid(ts, pop_arg, tp_arg, **kw)          # cold cache when approx
            if case.get("approx") and not light:
                extra["warm"] = tsdate.build_prior_grid(ts, pop_arg, tp_arg, **kw)   # warm: table read from disk
            mkw = {"prior_distribution": case["distr"], "allow_unary": bool(case.get("allow_unary"))}
            if case.get("approx"):
                mkw.update(approximate_priors=True, approx_prior_size=case["approx"])
            mp = P.MixturePrior(ts, **mkw)
            if not light:
                # the same MixturePrior object reused: a second grid first, then the one asked for
                other = 3 if isinstance(tp, int) else 4
                mp.make_discretised_prior(pop_arg, other)
                extra["reused"] = mp.make_discretised_prior(pop_arg, tp_arg)
    finally:
        if old_xdg is None:
            os.environ.pop("XDG_CACHE_HOME", None)
        else:
            os.environ["XDG_CACHE_HOME"] = old_xdg
    table = mp.base_priors.prior_with_max_total_tips()
    if isinstance(tp, int):
        with np.errstate(all="ignore"):
            tc = P.create_timepoints(mp.base_priors, tp + 1)
    else:
        tc = popo.to_coalescent_timescale(np.sort(np.array(tp, dtype=float)))
    return {"ts": ts, "prior": prior, "params": mp.prior_params, "table": table, "tc": np.array(tc), "pop": popo,
            "extra": extra}


# ------------------------------------------------------------------ the property on the implementation
def oracle(ctx, case, r):
    import numpy as np
    import tskit
    ts, prior = r["ts"], r["prior"]
    tpts = np.array(prior.timepoints, dtype=float)
    rp = {"case": case}
    ex = r.get("extra", {})
    if "warm" in ex and not same_grid(prior, ex["warm"]):
        ctx.oracle_fail("approx-cold-warm", "approximate_priors=True, approx_prior_size=%r: the grid built right after the lookup "
                        "table was computed (cold cache) differs from the grid built from the cached table (warm)" % case.get("approx"), rp)
        return
    if "reused" in ex and not same_grid(prior, ex["reused"]):
        ctx.oracle_fail("reused-object", "a MixturePrior object reused for a second make_discretised_prior call gives a grid "
                        "different from build_prior_grid on the same arguments", rp)
        return
    if not (len(tpts) >= 2 and np.all(np.diff(tpts) > 0)):
        ctx.oracle_fail("grid-not-increasing", "timepoints %r are not strictly increasing" % tpts.tolist()[:12], rp)
        return
    tp = expand_tp(case["timepoints"])
    if isinstance(tp, int):
        if tpts[0] != 0.0:
            ctx.oracle_fail("grid-start", "generated grid starts at %r" % tpts[0], rp)
            return
        if len(tpts) < tp + 1:
            ctx.oracle_fail("grid-size", "asked for %d quantiles, got %d timepoints" % (tp, len(tpts)), rp)
            return
    else:
        want = np.sort(np.array(tp, dtype=float))
        if len(want) != len(tpts):
            ctx.oracle_fail("user-grid", "stored grid %r is not the user's grid %r" % (tpts.tolist()[:12], want.tolist()[:12]), rp)
            return
        dev = float(np.max(np.abs(tpts - want) / np.where(want > 0, want, 1.0)))
        if dev > ULP4:
            # the code stores to_natural(to_coalescent(grid)); with a constant size that round trip is
            # exact to 1 ulp (measured 2.2e-16), with several epochs it is not (measured up to 2.9e-12)
            if isinstance(case["pop"], dict) and len(case["pop"]["population_size"]) > 1 and dev <= 1e-9:
                sig = "user-grid-roundtrip-epochs"
            else:
                sig = "user-grid"
            ctx.oracle_fail(sig, "stored grid %r is not the user's grid %r (max relative deviation %.3g)"
                            % (tpts.tolist()[:12], want.tolist()[:12], dev), rp)
            if sig == "user-grid":
                return
    samples = set(int(u) for u in ts.samples())
    nonfixed = [int(u) for u in prior.nonfixed_nodes]
    if sorted(nonfixed) != [u for u in range(ts.num_nodes) if u not in samples] or len(set(nonfixed)) != len(nonfixed):
        ctx.oracle_fail("nonfixed-nodes", "nonfixed_nodes %r is not the set of non-sample nodes" % nonfixed, rp)
        return
    if prior.grid_data.shape != (len(nonfixed), len(tpts)):
        ctx.oracle_fail("grid-shape", "grid_data has shape %r" % (prior.grid_data.shape,), rp)
        return
    for u in samples:
        if prior.row_lookup[u] >= 0 or np.ndim(prior[u]) != 0:
            ctx.oracle_fail("sample-row", "sample node %d has a grid row" % u, rp)
            return
    # masses recomputed from scipy on the coalescent scale
    cdf, _ppf = dist_funcs(case["distr"])
    tc = r["pop"].to_coalescent_timescale(tpts)
    for u in nonfixed:
        row = np.array(prior[u], dtype=float)
        a, b = r["params"][u]
        with np.errstate(all="ignore"):
            c = cdf(tc, a, b)
        if not (row[0] == 0.0 and np.max(row[1:]) == 1.0 and np.all(row >= 0.0)):
            if not np.all(np.isfinite(row)):
                # every interval of the grid has zero mass in double precision (the whole grid lies where the
                # cdf is saturated): 0/0 in the normalisation
                with np.errstate(all="ignore"):
                    c2 = cdf(r["tc"], a, b)   # on the coalescent timepoints the code used
                zero_mass = any(bool(np.all(np.isfinite(x)) and (np.max(x) == 0.0 or np.all(np.diff(x) == 0.0)))
                                for x in (c, c2))
                sig = "row-nan-zero-mass" if zero_mass and not isinstance(case["timepoints"], int) else "row-nan"
            else:
                sig = "row-normalisation"
            ctx.oracle_fail(sig, "node %d row %r: entry 0 must be 0, the largest entry 1, none negative (cdf on the grid: %r)"
                            % (u, row.tolist()[:12], c.tolist()[:12]), rp)
            if sig == "row-nan-zero-mass":
                continue
            return
        mass = np.diff(c / np.max(c))
        exp = np.concatenate([[0.0], mass / np.max(mass)])
        # the natural -> coalescent round trip of C17 is not exact with several epochs (measured up to 3e-10
        # relative on the coalescent scale); allow for its effect on the normalised masses
        tcu = np.array(r["tc"], dtype=float)
        disc = float(np.max(np.abs(tc - tcu) / np.where(tcu > 0, tcu, 1.0))) if len(tcu) == len(tc) else 1.0
        # on a very fine grid a perturbation dt of the timepoints changes an interval's mass by about 2 dt / width
        fine = float(np.max(np.abs(tc - tcu)) / np.min(np.diff(tcu))) if len(tcu) == len(tc) else 1.0
        if not np.all(np.abs(exp - row) <= 1e-9 + 100.0 * min(disc, 1e-7) + min(10.0 * fine, 1e-3)):
            ctx.oracle_fail("row-masses", "node %d row %r is not the normalised %s interval mass %r"
                            % (u, row.tolist()[:12], case["distr"], exp.tolist()[:12]), rp)
            return


# ------------------------------------------------------------------ Coq model
def coq_rows(ctx, jobs):
    """jobs: list of cdf-value lists -> model rows (prior_row on binary64)"""
    body = "Definition jobs := %s.\n" % clist(jobs, lambda cs: clist(cs, cfloat))
    body += "Eval vm_compute in map (prior_row FNum) jobs.\n"
    res = ctx.coq_eval(body, requires=REQ, tag="c16rows", timeout=600)
    return [None if x is None else [float(v) for v in x[1]] for x in res[0]]


def coq_timepoints(ctx, jobs):
    """jobs: (max_n, npts, ppf_tab, tvals, cdf_tab): create_timepoints on binary64 with the scipy values as tables"""
    defs = []
    calls = []
    for j, (max_n, npts, ppf_tab, tvals, cdf_tab) in enumerate(jobs):
        defs.append("Definition ppft%d := %s.\nDefinition tv%d := %s.\nDefinition cdft%d := %s.\n" % (
            j, clist(ppf_tab, lambda l: clist(l, cfloat)), j, clist(tvals, cfloat), j, clist(cdf_tab, lambda l: clist(l, cfloat))))
        calls.append("create_timepoints FNum (tabf tv%d cdft%d) (tabf (percentiles FNum %s) ppft%d) %s %s" % (
            j, j, cnat(npts), j, cnat(max_n), cnat(npts)))
    body = ("Definition index_of (x : float) (l : list float) : nat :=\n"
            "  (fix go (l : list float) (i : nat) : nat := match l with [] => i | y :: r => if PrimFloat.eqb x y then i else go r (S i) end) l 0%nat.\n"
            "Definition tabf (keys : list float) (tab : list (list float)) (i : nat) (x : float) : float :=\n"
            "  nth (index_of x keys) (nth (i - 2) tab []) nan.\n")
    body += "".join(defs)
    body += "Eval vm_compute in %s.\n" % clist(calls)
    res = ctx.coq_eval(body, requires=REQ, tag="c16tp", timeout=900)
    return [None if x is None else [float(v) for v in x[1]] for x in res[0]]


def coq_nonfixed(ctx, jobs):
    body = "Definition jobs := %s.\n" % clist(
        jobs, lambda j: "(%s, %s)" % (clist(j[0], cbool), clist(j[1], cfloat)))
    body += ("Eval vm_compute in map (fun j : list bool * list float => nonfixed_nodes FNum (length (fst j)) "
             "(fun u => nth u (fst j) true) (fun u => nth u (snd j) 0%float)) jobs.\n")
    res = ctx.coq_eval(body, requires=REQ, tag="c16nf", timeout=600)
    return [[int(u) for u in l] for l in res[0]]


def same(a, b):
    return len(a) == len(b) and all((x == y) or (x != x and y != y) for x, y in zip(a, b))


def correspondence(ctx, cases, results):
    import numpy as np
    import tskit
    row_jobs, row_ref = [], []
    tp_jobs, tp_ref = [], []
    nf_jobs, nf_ref = [], []
    for case, r in zip(cases, results):
        if r is None:
            continue
        ts, prior = r["ts"], r["prior"]
        cdf, ppf = dist_funcs(case["distr"])
        rp = {"case": case}
        # the stored grid is the natural-scale image of the coalescent grid (same function of the code)
        ctx.corr("stored-timepoints", same(list(r["pop"].to_natural_timescale(r["tc"])), list(prior.timepoints)),
                 "prior.timepoints is not to_natural_timescale(coalescent timepoints)", replay=rp)
        for u in prior.nonfixed_nodes:
            a, b = r["params"][u]
            with np.errstate(all="ignore"):
                row_jobs.append([float(x) for x in cdf(r["tc"], a, b)])
            row_ref.append((rp, int(u), [float(x) for x in prior[int(u)]]))
        flags = [bool(f & tskit.NODE_IS_SAMPLE) for f in ts.nodes_flags]
        nf_jobs.append((flags, [float(t) for t in ts.nodes_time]))
        nf_ref.append((rp, [int(u) for u in prior.nonfixed_nodes], [float(t) for t in ts.nodes_time]))
        tp = case["timepoints"]
        table = r["table"]
        max_n = len(table) - 1
        if isinstance(tp, int) and max_n <= 9 and tp <= 20 and not case.get("approx"):
            npts = tp + 1
            pcs = np.linspace(0, 1, npts + 1)[1:-1]
            mine = np.array([j * (1.0 / npts) for j in range(1, npts)])
            ctx.corr("percentiles", same(list(pcs), list(mine)), "np.linspace(0,1,m+1)[1:-1] != j*(1/m) for m=%d" % npts, replay=rp)
            with np.errstate(all="ignore"):
                ppf_tab = [[float(x) for x in ppf(pcs, table[i, 0], table[i, 1])] for i in range(2, max_n + 1)]
                tvals = []
                for l in ppf_tab:
                    for x in l:
                        if x not in tvals:
                            tvals.append(x)
                cdf_tab = [[float(x) for x in cdf(np.array(tvals), table[i, 0], table[i, 1])] for i in range(2, max_n + 1)]
            tp_jobs.append((max_n, npts, ppf_tab, tvals, cdf_tab))
            tp_ref.append((rp, [float(x) for x in r["tc"]]))
    CH = 250
    for s in range(0, len(row_jobs), CH):
        out = coq_rows(ctx, row_jobs[s:s + CH])
        for (rp, u, ref), m in zip(row_ref[s:s + CH], out):
            ctx.corr("fill_priors-row", m is not None and same(m, ref), "node %d impl row %r model %r" % (u, ref[:8], (m or [])[:8]), replay=rp)
    for s in range(0, len(tp_jobs), 40):
        out = coq_timepoints(ctx, tp_jobs[s:s + 40])
        for (rp, ref), m in zip(tp_ref[s:s + 40], out):
            ctx.corr("create_timepoints", m is not None and same(m, ref), "impl %r model %r" % (ref[:10], (m or [])[:10]), replay=rp)
    if nf_jobs:
        out = coq_nonfixed(ctx, nf_jobs)
        for (rp, ref, times), m in zip(nf_ref, out):
            ok = sorted(m) == sorted(ref) and all(times[a] <= times[b] for a, b in zip(ref, ref[1:]))
            ctx.corr("nonfixed_nodes", ok, "impl %r model %r" % (ref, m), replay=rp)


def summarize(case, r):
    tp = case["timepoints"]
    tsd = case["ts"]
    if "msprime" in tsd:
        tsd = {"nodes_flags": [1] * tsd["msprime"]["n"], "nodes_time": [0] * (2 * tsd["msprime"]["n"] - 1), "edges": []}
    d = {"samples": sum(1 for f in tsd["nodes_flags"] if f & 1), "nodes": len(tsd["nodes_time"]),
         "edges": len(tsd["edges"]), "distr": case["distr"], "timepoints": tp, "pop": case["pop"],
         "deco": case.get("deco"), "approx": case.get("approx"), "allow_unary": case.get("allow_unary")}
    if r is not None:
        d["grid"] = [float(x) for x in r["prior"].timepoints][:8]
    return d


def size_cases(ctx):
    """ORACLE ONLY (too big for Coq literals): (#non-sample nodes) x (#timepoints) across 2^16 .. 2^21, and in the
    thorough tier >= 55000 non-sample nodes with the default grid.  Replays keep generator parameters only."""
    import time
    import msprime
    rng = ctx.rng
    todo = []
    targets = [20, 21, rng.choice([16, 18])] if ctx.tier == "quick" else [16, 18, 20, 20, 21, 21]
    for e in targets:
        n = rng.randint(20, 40)
        ts = gen.sim_ts(rng, n=n, L=rng.choice([20, 100]), rec=rng.choice([0.02, 0.05, 0.1]), historical=False,
                        multimerger=False)
        if rng.random() < 0.4:
            ts = gen.permute_nodes(rng, ts)
        nn = ts.num_nodes - ts.num_samples
        m = int((2 ** e) * rng.choice([1.05, 1.3, 1.9]) / nn) + 1
        if pick_int := (e <= 18 and rng.random() < 0.6):
            tp = max(2, min(m - 1, 1500))            # integer request: create_timepoints builds >= tp + 1 points
        else:
            kind = rng.choice(["linspace", "geom"])
            hi = rng.choice([5.0, 20.0, 200.0])
            tp = {"kind": kind, "m": m, "hi": hi, "lo": 1e-4}
        if rng.random() < 0.5:
            pop = rng.choice([1.0, 0.5, 100.0])
        else:
            pop = {"population_size": [rng.choice([1.0, 5.0]), rng.choice([0.5, 2.0, 10.0])], "time_breaks": [rng.choice([0.3, 2.0])]}
        case = {"ts": gen.ts_tables_dict(ts), "distr": rng.choice(["lognorm", "gamma"]), "timepoints": tp, "pop": pop,
                "poptype": "float", "deco": ["size-regime"], "allow_unary": False, "approx": None, "light": True}
        todo.append((case, ts, "size-regime/nodes x timepoints > 2^%d" % e))
    if ctx.tier == "thorough":
        nbig = 56000 + rng.randint(0, 2000)
        case = {"ts": {"msprime": {"n": nbig, "seed": rng.randrange(1, 2 ** 31)}}, "distr": rng.choice(["lognorm", "gamma"]),
                "timepoints": 20, "pop": 1.0, "poptype": "float", "deco": ["size-regime"], "allow_unary": False,
                "approx": 1000, "light": True}
        todo.append((case, None, "size-regime/>=55000 non-sample nodes, default grid"))
    for case, ts, kind in todo:
        t0 = time.time()
        try:
            r = run_impl(case, ts, ctx.work, light=True)
        except Exception as e:
            ctx.oracle_fail("exception:%s" % type(e).__name__, "build_prior_grid raised %s: %s" % (type(e).__name__, str(e)[:300]), {"case": case})
            continue
        oracle(ctx, case, r)
        shape = tuple(int(x) for x in r["prior"].grid_data.shape)
        ctx.case(dict(summarize(case, r), grid_shape=shape, seconds=round(time.time() - t0, 1)), nontrivial=True, kind=kind)
        ctx.tally("size-regime cells", shape[0] * shape[1])
        if ctx.oracle_fails:
            return


def run(ctx, model_ok=True):
    import logging
    import numpy as np
    logging.getLogger().setLevel(logging.ERROR)   # allow_unary / cache-initialisation warnings are expected
    n = ctx.n(70, 600)
    made = [make_case(ctx.rng) for _ in range(n)]
    cases = [c for c, _ts in made]
    results = []
    for c, ts in made:
        try:
            r = run_impl(c, ts, ctx.work)
        except Exception as e:
            ctx.oracle_fail("exception:%s" % type(e).__name__,
                            "build_prior_grid raised %s: %s" % (type(e).__name__, str(e)[:300]), {"case": c})
            results.append(None)
            continue
        results.append(r)
        oracle(ctx, c, r)
    for c, r in zip(cases, results):
        nontriv = False
        kind = ("count" if isinstance(c["timepoints"], int) else "user-grid") + "/" + c["distr"] + \
            ("/epochs" if isinstance(c["pop"], dict) else "/const")
        for d in c.get("deco", []):
            ctx.tally("deco:" + d)
        if c.get("approx"):
            ctx.tally("approximate_priors(size=%d)" % c["approx"])
        if r is not None:
            ks = set()
            for u in r["prior"].nonfixed_nodes:
                ks.add(tuple(float(x) for x in r["params"][u]))
            added = isinstance(c["timepoints"], int) and len(r["prior"].timepoints) > c["timepoints"] + 1
            nontriv = len(ks) >= 2 or added
            if added:
                ctx.tally("thinning-loop-added-quantiles")
        ctx.case(summarize(c, r), nontrivial=nontriv, kind=kind)
    if not ctx.oracle_fails:
        size_cases(ctx)
    if model_ok:
        correspondence(ctx, cases, results)


def search(ctx):
    size_cases(ctx)
    if ctx.oracle_fails:
        return
    for _ in range(ctx.n(300, 1500)):
        c, ts = make_case(ctx.rng)
        try:
            oracle(ctx, c, run_impl(c, ts, ctx.work))
        except Exception as e:
            ctx.oracle_fail("exception:%s" % type(e).__name__, "build_prior_grid raised %s: %s" % (type(e).__name__, str(e)[:300]), {"case": c})
        if ctx.oracle_fails:
            return


def replay(ctx, data):
    case = data["case"]["case"]
    before = len(ctx.oracle_fails)
    try:
        oracle(ctx, case, run_impl(case, None, ctx.work, light=bool(case.get("light"))))
    except Exception:
        return False
    return len(ctx.oracle_fails) == before
