"""Shared by the pipeline-level checks (C01, C03, C06-C09 ...): small datable inputs,
option grids and a uniform way of calling tsdate's methods."""
import warnings
import numpy as np
from vlib import gen

METHODS = ["variational_gamma", "inside_outside", "maximization"]


def datable_ts(rng, historical=None, internal=False, big=False, ploidy=1):
    """small simplified tree sequence with >= 1 mutation, integer coordinates"""
    for _ in range(50):
        n = rng.randint(2, 9 if big else 6)
        L = rng.choice([20, 100, 1000] if not big else [1000, 5000])
        ts = gen.sim_ts(rng, n=n, L=L, historical=historical, ploidy=ploidy,
                        mu=rng.choice([1.0, 3.0, 10.0, 30.0]) / L)
        if ts.num_mutations == 0:
            continue
        if internal:
            ts = gen.internal_samples(rng, ts, k=rng.randint(1, 2))
        # valid-but-unusual decorations (extra flag bits, renumbered nodes, mutations above roots,
        # mutation-free sites, unknown mutation times, allele states, populations)
        ts, _applied = gen.exotic(rng, ts, p=0.2)
        return ts
    raise RuntimeError("no datable input generated")


def method_options(rng, method, ts, mu=None):
    """random but valid option set for one method"""
    mu = mu if mu is not None else 10.0 ** rng.uniform(-3, -1)
    kw = {"mutation_rate": mu}
    if rng.random() < 0.5:
        kw["min_branch_length"] = rng.choice([1e-8, 1e-6, 1e-3, 0.1])
    if rng.random() < 0.4:
        kw["constr_iterations"] = rng.choice([0, 1, 5, 50])
    if method == "variational_gamma":
        if rng.random() < 0.5:
            kw["rescaling_intervals"] = rng.choice([0, 1, 2, 5, 1000])
        if rng.random() < 0.3:
            kw["max_iterations"] = rng.choice([1, 2, 5, 25])
        if rng.random() < 0.3:
            kw["max_shape"] = rng.choice([2.0, 10.0, 1000.0])
        if rng.random() < 0.3:
            kw["match_segregating_sites"] = True
        if rng.random() < 0.3:
            kw["regularise_roots"] = False
    else:
        kw["population_size"] = rng.choice([0.5, 1.0, 10.0, 100.0])
        if rng.random() < 0.3:
            kw["eps"] = rng.choice([1e-10, 1e-8, 1e-6])
        if method == "inside_outside" and rng.random() < 0.3:
            kw["probability_space"] = rng.choice(["linear", "logarithmic"])
        if rng.random() < 0.3:
            kw["num_threads"] = rng.choice([None, 1, 2])
    if rng.random() < 0.35:
        kw["_via_date"] = True     # enter through the generic tsdate.date(ts, method=...) wrapper (see call())
    return kw


def call(fname, ts, **kw):
    """-> ("ok", result) | ("raise", ExcType, message)"""
    import tsdate
    fn = getattr(tsdate, fname)
    via = bool(kw.get("_via_date")) and fname != "date"
    kw = {k: v for k, v in kw.items() if k != "_via_date"}
    if via:
        # the same call through the generic wrapper, which forwards every option by name
        kw["method"] = fname
        fn = tsdate.date
    with warnings.catch_warnings():
        warnings.simplefilter("ignore")
        try:
            return ("ok", fn(ts, **kw))
        except Exception as e:  # noqa
            return ("raise", type(e).__name__, str(e)[:200])


def node_md(ts, key):
    """mn / vr arrays from node metadata (nan where absent)"""
    out = np.full(ts.num_nodes, np.nan)
    for u in ts.nodes():
        md = u.metadata
        if isinstance(md, dict) and key in md:
            out[u.id] = md[key]
    return out


def mut_md(ts, key):
    out = np.full(ts.num_mutations, np.nan)
    for m in ts.mutations():
        md = m.metadata
        if isinstance(md, dict) and key in md:
            out[m.id] = md[key]
    return out


def jsonable_opts(kw):
    out = {}
    for k, v in kw.items():
        if isinstance(v, (bool, str)) or v is None:
            out[k] = v
        elif isinstance(v, (int, np.integer)):
            out[k] = int(v)
        elif isinstance(v, (float, np.floating)):
            out[k] = float(v)
        else:
            out[k] = v
    return out


def result_arrays(out):
    """everything C06-C09 compare: times, posterior moments, mutation nodes.
    Mutation rows are put in a canonical order (site position, node, time): at a site with several
    mutations tskit orders the rows by the NEW node times (finding K9), so the row order itself can
    flip between two runs whose times differ by rounding only."""
    pos = out.sites_position[out.mutations_site] if out.num_mutations else np.zeros(0)
    mnode = np.array(out.mutations_node, dtype=float)
    mtime = np.array(out.mutations_time)
    order = np.lexsort((np.nan_to_num(mtime), mnode, pos)) if out.num_mutations else np.zeros(0, dtype=int)
    return {
        "node_time": np.array(out.nodes_time),
        "mut_time": mtime[order],
        "node_mn": node_md(out, "mn"), "node_vr": node_md(out, "vr"),
        "mut_mn": mut_md(out, "mn")[order], "mut_vr": mut_md(out, "vr")[order],
        "mut_node": mnode[order],
    }


def max_rel_diff(a, b, scale=None):
    """largest |a-b| / max(|a|,|b|,tiny) over all arrays (nan == nan); scale: dict key -> factor applied to a"""
    worst = (0.0, None)
    for k in a:
        x = a[k] * (scale.get(k, 1.0) if scale else 1.0)
        y = b[k]
        if x.shape != y.shape:
            return (float("inf"), k + ":shape")
        nx, ny = np.isnan(x), np.isnan(y)
        if not np.array_equal(nx, ny):
            return (float("inf"), k + ":nan-pattern")
        m = ~nx
        if not m.any():
            continue
        den = np.maximum(np.maximum(np.abs(x[m]), np.abs(y[m])), 1e-300)
        d = float(np.max(np.abs(x[m] - y[m]) / den))
        if d > worst[0]:
            worst = (d, k)
    return worst


def scale_coordinates(ts, c):
    """multiply every genomic coordinate by c"""
    import tskit
    tables = ts.dump_tables()
    tables.sequence_length = ts.sequence_length * c
    tables.edges.left = tables.edges.left * c
    tables.edges.right = tables.edges.right * c
    tables.sites.position = tables.sites.position * c
    if tables.migrations.num_rows:
        tables.migrations.left = tables.migrations.left * c
        tables.migrations.right = tables.migrations.right * c
    return tables.tree_sequence()
