"""C23 -- rescaling credits each unphased singleton to its branches by phase probability."""
import math
from fractions import Fraction

import numpy as np

from props import _ep as E
from vlib.coqfmt import cfloat, cnat, clist, cpair, copt

ENV_BY_TIER = {"quick": {"NUMBA_DISABLE_JIT": "1"}, "thorough": {}}

RULE = ("(0) sites on tree breakpoints: diploid msprime inputs with several trees get singletons (and non-singleton "
        "mutations) at positions EQUAL to interior breakpoints, preferring breakpoints where the edge above the carrier "
        "changes; used by a direct stream (block_singletons + count_mutations + reallocate_unphased with random phases) "
        "and by half of the infer() stream; each singleton's two candidate branches are recomputed at its position "
        "with the tskit Tree API and must be exactly the block it is credited to; "
        "(a) reallocate_unphased called directly on generated arrays: 2-12 edges, 0-4 blocks (pairs of distinct "
        "edges, edges may be shared between blocks), singleton phases dyadic / arbitrary / 0 / 1 / NaN / out of "
        "range, counts consistent with the singletons or not; (b) ExpectationPropagation.infer on msprime diploid "
        "inputs (1-4 individuals, with and without internal samples; 40% decorated by gen.exotic: renumbered nodes, "
        "extra flag bits, mutations above local roots (mutation_edges == NULL), mutation-free sites, unknown times, "
        "states, populations) with singletons_phased=False x rescaling intervals x rescaling iterations x "
        "segregating-sites/path-length (50/50) x max_shape x iterations x numpy-typed option scalars, 30% with infer() "
        "called twice on the same object, observing the fitted phases before "
        "the switch, the arguments of reallocate_unphased and the count arrays after. Non-trivial when at least one "
        "singleton has a block; distinct by content hash")
ASSUME = ["np.sum in the closing isclose test is modelled as a left-to-right sum",
          "count_mutations (C24) provides the counts before reallocation"]
ATOL, RTOL = 1e-8, 1e-5


# ---------------------------------------------------------------- (a) direct calls
def direct_case(rng):
    nE = rng.randint(2, 12)
    nB = rng.choice([0, 1, 1, 2, 3, 4])
    bes = []
    for _ in range(nB):
        i = rng.randrange(nE)
        j = rng.randrange(nE)
        while j == i:
            j = rng.randrange(nE)
        bes.append([i, j])
    nM = rng.randint(0, 12)
    style = rng.choice(["dyadic", "any", "any", "extreme", "nan", "range"])
    blk, ph = [], []
    for _ in range(nM):
        b = rng.randrange(nB) if nB and rng.random() < 0.7 else -1
        if style == "dyadic":
            p = rng.randint(0, 16) / 16.0
        elif style == "extreme":
            p = rng.choice([0.0, 1.0, 0.5, 1e-17, 1 - 1e-16])
        else:
            p = rng.random()
        if style == "nan" and rng.random() < 0.3:
            p = float("nan")
        if style == "range" and rng.random() < 0.3:
            p = rng.choice([1.5, -0.25, 1.0000000000000002])
        if b == -1 and rng.random() < 0.5:
            p = 1.0
        blk.append(b)
        ph.append(p)
    unph = set(e for be in bes for e in be)
    cnt = [float(rng.randint(0, 6)) if rng.random() < 0.6 else rng.random() * 5 for _ in range(nE)]
    consistent = rng.random() < 0.8
    if consistent:    # as in real data: every singleton counted once on one edge of its block
        for e in unph:
            cnt[e] = 0.0
        for b in blk:
            if b >= 0:
                cnt[bes[b][rng.randrange(2)]] += 1.0
    return {"nE": nE, "bes": bes, "blk": blk, "phase": ph, "cnt": cnt, "span": [rng.random() * 10 for _ in range(nE)],
            "style": style, "consistent": consistent}


def run_direct(c):
    import tsdate.phasing as P
    lik = np.column_stack([np.array(c["cnt"], dtype=float), np.array(c["span"], dtype=float)])
    lik = np.ascontiguousarray(lik)
    bes = np.array(c["bes"], dtype=np.int32).reshape(-1, 2)
    try:
        with np.errstate(all="ignore"):
            P.reallocate_unphased(lik, np.array(c["phase"], dtype=float), np.array(c["blk"], dtype=np.int32), bes)
    except AssertionError:
        return "assert"
    except IndexError:
        return "index-error"
    if not np.array_equal(lik[:, 1], np.array(c["span"], dtype=float)):
        return "span-changed"
    return [float(x) for x in lik[:, 0]]


def expected_counts(cnt, bes, blk, ph):
    """the property, in exact arithmetic: old count outside blocks, sum of credits inside"""
    unph = set(e for be in bes for e in be)
    out = [Fraction(0) if e in unph else Fraction(cnt[e]) for e in range(len(cnt))]
    for b, p in zip(blk, ph):
        if b < 0 or math.isnan(p):
            continue
        i, j = bes[b]
        out[i] += Fraction(p)
        out[j] += 1 - Fraction(p)
    return out


def model_direct_term(c):
    muts = clist(zip(c["blk"], c["phase"]),
                 lambda bp: cpair(copt(bp[0] if bp[0] >= 0 else None, cnat), cfloat(bp[1])))
    return "reallocate_list FNum %s %s %s %s %s" % (
        cfloat(ATOL), cfloat(RTOL), clist(c["bes"], lambda e: cpair(cnat(e[0]), cnat(e[1]))),
        clist(c["cnt"], cfloat), muts)


def oracle_direct(ctx, c, out):
    valid = all(b < 0 or (not math.isnan(p) and 0.0 <= p <= 1.0) for b, p in zip(c["blk"], c["phase"]))
    if isinstance(out, str):
        if out == "span-changed":
            ctx.oracle_fail("span-changed", "reallocate_unphased modified the span column", {"direct": c})
        elif out == "index-error":
            ctx.oracle_fail("index-error", "reallocate_unphased raised IndexError (a mutation without a block must be skipped)", {"direct": c})
        elif valid and c["consistent"]:
            ctx.oracle_fail("asserts-on-valid-input", "reallocate_unphased raised AssertionError although every singleton "
                            "has a phase in [0,1] and the counts hold one mutation per singleton", {"direct": c})
        return
    exp = expected_counts(c["cnt"], c["bes"], c["blk"], c["phase"])
    unph = set(e for be in c["bes"] for e in be)
    for e in range(c["nE"]):
        if e not in unph:
            if out[e] != c["cnt"][e]:
                ctx.oracle_fail("other-branch-changed", "edge %d outside every block: %r -> %r" % (e, c["cnt"][e], out[e]), {"direct": c})
                return
        elif abs(out[e] - float(exp[e])) > 1e-12 * max(1.0, float(exp[e])):
            ctx.oracle_fail("wrong-credit", "edge %d: count %r, sum of phase credits %r" % (e, out[e], float(exp[e])), {"direct": c})
            return


def direct(ctx, model_ok):
    n = ctx.n(200, 1500)
    cases = [direct_case(ctx.rng) for _ in range(n)]
    outs = [run_direct(c) for c in cases]
    for c, o in zip(cases, outs):
        nb = sum(1 for b in c["blk"] if b >= 0)
        ctx.case({"direct": {k: c[k] for k in ("nE", "bes", "blk", "phase", "cnt")}, "out": o}, nontrivial=nb > 0,
                 kind="direct/%s/%s" % (c["style"], "assert" if isinstance(o, str) else "ok"))
        oracle_direct(ctx, c, o)
    if not model_ok:
        return
    res = []
    for k in range(0, n, 250):
        body = "Eval vm_compute in %s.\n" % clist([model_direct_term(c) for c in cases[k:k + 250]])
        res += ctx.coq_eval(body, requires=("lib.Num", "model.EP", "model.Phasing"), tag="realloc")[0]
    for c, o, m in zip(cases, outs, res):
        mo = "assert" if m is None else [float(x) for x in m[1]]
        ctx.corr("reallocate_unphased", E._same(mo, o) if not isinstance(o, str) and not isinstance(mo, str) else mo == o,
                 "impl %r model %r" % (o, mo), replay={"direct": c})


# ---------------------------------------------------------------- (b) infer()
# ---------------------------------------------------------------- sites on tree breakpoints
def breakpoint_sites(rng, ts):
    """valid inputs simulators rarely give: a site at position x belongs to the tree whose interval is
    [x, ...).  Adds a few singletons (and a few non-singleton mutations) at positions EQUAL to interior
    breakpoints, preferring breakpoints at which the edge above the carrier sample changes."""
    import tskit
    taken = set(float(x) for x in ts.sites_position)
    samples = [int(u) for u in ts.samples()]
    changed, plain, inner = [], [], []
    prev = None
    for tree in ts.trees():
        x = float(tree.interval.left)
        if prev is not None and x not in taken:
            for u in samples:
                if tree.edge(u) != -1:
                    (changed if tree.edge(u) != prev[u] else plain).append((x, u))
            for v in tree.nodes():
                if tree.num_samples(v) >= 2 and tree.parent(v) != -1:
                    inner.append((x, v))
        prev = {u: tree.edge(u) for u in samples}
    rng.shuffle(changed)
    rng.shuffle(plain)
    rng.shuffle(inner)
    picks = changed[: rng.randint(1, 4)] + plain[: rng.randint(0, 1)] + inner[: rng.randint(0, 2)]
    tables = ts.dump_tables()
    added = 0
    for x, u in picks:
        if x in taken:
            continue
        taken.add(x)
        si = tables.sites.add_row(position=x, ancestral_state="0")
        tables.mutations.add_row(site=si, node=u, derived_state="1", time=tskit.UNKNOWN_TIME)
        added += 1
    if not added:
        return ts, 0
    tables.sort()
    tables.build_index()
    tables.compute_mutation_parents()
    return tables.tree_sequence(), added


def bp_ts(rng):
    """diploid msprime input with several trees and sites sitting exactly on breakpoints"""
    from vlib import gen
    L = rng.choice([20, 100, 100])
    ts = gen.sim_ts(rng, n=rng.randint(1, 3), L=L, ploidy=2, rec=rng.choice([2.0, 5.0, 10.0]) / L,
                    historical=False, multimerger=False, mu=rng.choice([1.0, 3.0, 10.0]) / L)
    ts, added = breakpoint_sites(rng, ts)
    return ts, added


def candidate_edges(ts):
    """per mutation: the edges above the two genomes of the carrier's individual AT THE SITE
    (tskit Tree API), or None when the carrier has no diploid individual"""
    import tskit
    out = [None] * ts.num_mutations
    tree = tskit.Tree(ts)
    for site in ts.sites():
        tree.seek(site.position)
        for m in site.mutations:
            ind = ts.node(m.node).individual
            if ind < 0:
                continue
            nodes = [int(u) for u in ts.individual(ind).nodes]
            if len(nodes) != 2 or m.node not in nodes:
                continue
            other = nodes[0] if nodes[1] == m.node else nodes[1]
            out[m.id] = (int(tree.edge(m.node)), int(tree.edge(other)))
    return out


def check_block_edges(ctx, ts, blocks, be, rp, where):
    """every singleton's block must consist of the two branches that cover ITS site"""
    cands = candidate_edges(ts)
    for m in np.flatnonzero(np.asarray(blocks) != -1):
        c = cands[int(m)]
        if c is None or -1 in c:
            ctx.tally("singleton-without-two-branches")
            continue
        got = set(int(e) for e in be[blocks[m]])
        if got != set(c):
            x = float(ts.sites_position[ts.mutations_site[m]])
            ctx.oracle_fail("block-not-at-site:" + where,
                            "singleton %d at position %r: its individual's two branches at the site are edges %r, but it is "
                            "credited to edges %r (edge intervals %r)" % (
                                int(m), x, sorted(c), sorted(got),
                                [[float(ts.edges_left[e]), float(ts.edges_right[e])] for e in sorted(got)]), rp)
            return False
    return True


def direct_ts_case(rng):
    ts, added = bp_ts(rng)
    applied = []
    if rng.random() < 0.4:
        ts, applied = E.decorate(rng, ts, force=True)
    return {"ts": E.ts_dict(E.ts_of(E.ts_dict(ts))), "kind": "bp-direct", "exotic": applied, "bp_sites": added,
            "size_biased": rng.random() < 0.5, "pseed": rng.randrange(1 << 30)}


def run_direct_ts(ctx, c):
    """block_singletons + count_mutations + reallocate_unphased on a tree sequence, with random phases;
    credited counts are checked against the branches that cover each singleton's site"""
    import random
    import tsdate.phasing as P
    import tsdate.rescaling as R
    ts = E.case_ts(c)
    rp = {"direct_ts": c}
    try:
        _bl, be, blocks = P.block_singletons(ts, np.full(ts.num_individuals, True))
    except (ValueError, AssertionError):
        return None
    be = np.asarray(be).reshape(-1, 2)
    blocks = np.asarray(blocks)
    L0 = np.array(R.count_mutations(ts, size_biased=c["size_biased"])[0], dtype=float)
    prng = random.Random(c["pseed"])
    phase = np.array([prng.choice([prng.random(), prng.randint(0, 8) / 8.0]) if b != -1 else 1.0 for b in blocks], dtype=float)
    lik = np.ascontiguousarray(L0.copy())
    ns = int(np.sum(blocks != -1))
    if not check_block_edges(ctx, ts, blocks, be, rp, "direct"):
        return ns
    try:
        P.reallocate_unphased(lik, phase, blocks.astype(np.int32), be.astype(np.int32))
    except AssertionError:
        ctx.tally("direct-ts-realloc-assert")     # lone-edge stretches (K8 of C24): not judged here
        return ns
    exp = expected_counts([float(x) for x in L0[:, 0]], be.tolist(), [int(b) for b in blocks], phase.tolist())
    unph = set(int(e) for e in be.flatten())
    for e in range(len(L0)):
        bad = (lik[e, 0] != L0[e, 0]) if e not in unph else abs(lik[e, 0] - float(exp[e])) > 1e-12 * max(1.0, float(exp[e]))
        if bad:
            ctx.oracle_fail("wrong-credit:direct-ts", "edge %d: %r, expected %r" % (e, lik[e, 0], float(exp[e])), rp)
            break
    return ns


def direct_ts(ctx, n):
    for _ in range(n):
        c = direct_ts_case(ctx.rng)
        ns = run_direct_ts(ctx, c)
        ctx.case({"kind": c["kind"], "bp_sites": c["bp_sites"], "exotic": c["exotic"], "singletons": ns,
                  "nodes": len(c["ts"]["nodes_time"]), "edges": len(c["ts"]["edges"])},
                 nontrivial=bool(ns) and c["bp_sites"] > 0, kind="bp-direct")
        ctx.tally("sites-on-breakpoints", c["bp_sites"])


def infer_case(rng):
    if rng.random() < 0.5:
        ts, added = bp_ts(rng)
        applied = []
        if rng.random() < 0.4:
            ts, applied = E.decorate(rng, ts, force=True)
        c = {"ts": E.ts_dict(E.ts_of(E.ts_dict(ts))), "kind": "diploid-bp", "opts": E.make_opts(rng), "exotic": applied,
             "bp_sites": added}
    else:
        c = E.make_case(rng, kind=rng.choice(["diploid", "diploid", "diploid", "dip-internal"]))
    o = c["opts"]
    o["singletons_phased"] = False
    o["iterations"] = rng.choice([1, 2, 5])
    o["rescaling_intervals"] = rng.choice([1, 2, 5, 1000])
    o["rescaling_iterations"] = rng.choice([1, 5, 5])
    o["segsites"] = rng.random() < 0.5
    o["max_shape"] = rng.choice([5.0, 20.0, 100.0, 1000.0])
    o["np_types"] = rng.random() < 0.3
    o["twice"] = rng.random() < 0.3     # infer() called a second time on the same object
    return c


def run_infer(case):
    """returns the observations of one infer() call, or None when the input is rejected"""
    import tsdate.variational as V
    import tsdate.rescaling as R
    ts = E.case_ts(case)
    o = case["opts"]
    try:
        ep = E.new_ep(ts, o)
    except (ValueError, AssertionError):
        return None
    obs = {"raw": None, "realloc": None, "error": None}
    orig_pm = V.ExpectationPropagation.__dict__["propagate_mutations"]
    orig_re = V.reallocate_unphased
    pm = orig_pm.__func__ if isinstance(orig_pm, staticmethod) else orig_pm

    def watch_pm(*a):
        pm(*a)
        if a[-1] and obs["raw"] is None:    # the pass over unphased singletons
            obs["raw"] = np.array(a[2], dtype=float).copy()

    def watch_re(lik, phase, blocks, block_edges):
        before = np.array(lik[:, 0], dtype=float).copy()
        arg = np.array(phase, dtype=float).copy()
        try:
            orig_re(lik, phase, blocks, block_edges)
            after = np.array(lik[:, 0], dtype=float).copy()
        except AssertionError:
            after = "assert"
            obs["realloc"] = {"before": before, "phase": arg, "after": after}
            raise
        obs["realloc"] = {"before": before, "phase": arg, "after": after}

    V.ExpectationPropagation.propagate_mutations = staticmethod(watch_pm)
    V.reallocate_unphased = watch_re
    def ty(x):
        if not o.get("np_types"):
            return x
        return np.bool_(x) if isinstance(x, bool) else (np.int64(x) if isinstance(x, int) else np.float64(x))
    try:
        with np.errstate(all="ignore"):
            for rep in range(2 if o.get("twice") else 1):
                if rep:     # same object reused: the observations are those of the LAST call
                    obs["raw"] = None
                    obs["realloc"] = None
                ep.infer(ep_iterations=ty(o["iterations"]), max_shape=ty(o["max_shape"]),
                         rescale_intervals=ty(o["rescaling_intervals"]),
                         rescale_iterations=ty(o.get("rescaling_iterations", 5)), regularise=ty(o["regularise"]),
                         rescale_segsites=ty(o["segsites"]))
    except Exception as e:
        obs["error"] = type(e).__name__ + ": " + str(e)[:80]
    finally:
        V.ExpectationPropagation.propagate_mutations = orig_pm
        V.reallocate_unphased = orig_re
    obs["ep"] = ep
    obs["ts"] = ts
    obs["L0"] = np.array(R.count_mutations(ts, size_biased=not o["segsites"])[0][:, 0], dtype=float)
    return obs


def oracle_infer(ctx, case, obs):
    """the property on the fit object: counts used by rescaling = old counts outside blocks,
    phase-probability credits inside, the placed branch getting the stored (larger) share"""
    ep = obs["ep"]
    rp = {"case": case}
    blocks = np.array(ep.mutation_blocks)
    sing = np.flatnonzero(blocks != -1)
    if len(sing) and not check_block_edges(ctx, obs["ts"], blocks, np.array(ep.block_edges).reshape(-1, 2), rp, "infer"):
        return
    if obs["realloc"] is None:
        return
    if isinstance(obs["realloc"]["after"], str):
        ph = np.array(ep.mutation_phase, dtype=float)[sing]
        if not np.any(np.isnan(ph)) and np.allclose(obs["L0"], obs["realloc"]["before"]):
            ctx.tally("realloc-assert")
            # lone-edge stretches / missing data (finding K8 of C24) make the counts inconsistent; not decided here
        return
    o = case["opts"]
    L = np.array((ep.edge_likelihoods if o["segsites"] else ep.sizebiased_likelihoods)[:, 0], dtype=float)
    be = np.array(ep.block_edges).reshape(-1, 2)
    unph = set(int(e) for e in be.flatten())
    exp = [Fraction(0) if e in unph else Fraction(float(obs["L0"][e])) for e in range(len(L))]
    phase = np.array(ep.mutation_phase, dtype=float)
    placed = np.array(ep.mutation_edges)
    for m in sing:
        i, j = int(be[blocks[m], 0]), int(be[blocks[m], 1])
        p = float(phase[m])
        if math.isnan(p):
            continue
        if int(placed[m]) not in (i, j):
            ctx.oracle_fail("placed-outside-block", "singleton %d is mapped to edge %d, block edges %d,%d" % (m, placed[m], i, j), rp)
            return
        if not p >= 0.5:
            ctx.oracle_fail("placed-smaller-share", "singleton %d is placed on a branch with probability %r < 1/2" % (m, p), rp)
            return
        if obs["raw"] is not None and not math.isnan(obs["raw"][m]):
            # the fitted probability of the block's first edge, as propagate_mutations produced it
            r = float(obs["raw"][m])
            likelier = i if r >= 0.5 else j
            if int(placed[m]) != likelier or abs(p - max(r, 1 - r)) > 1e-12:
                ctx.oracle_fail("placed-on-less-likely-branch",
                                "singleton %d: fitted probability of the first edge %r, but it is placed on edge %d with stored phase %r"
                                % (m, r, placed[m], p), rp)
                return
        other = j if int(placed[m]) == i else i
        exp[int(placed[m])] += Fraction(p)
        exp[other] += 1 - Fraction(p)
    for e in range(len(L)):
        if e not in unph:
            if L[e] != obs["L0"][e]:
                ctx.oracle_fail("other-branch-changed:infer", "edge %d outside every block: %r -> %r" % (e, obs["L0"][e], L[e]), rp)
                return
        elif abs(L[e] - float(exp[e])) > 1e-9 * max(1.0, float(exp[e])):
            ctx.oracle_fail("wrong-credit:infer", "edge %d: count used by rescaling %r, credits by phase probability %r (placed branch "
                            "should get mutation_phase, the other 1 - mutation_phase)" % (e, L[e], float(exp[e])), rp)
            return
    nodes = np.array(ep.mutation_nodes)
    if len(sing) and not np.array_equal(nodes[sing], np.array(ep.edge_children)[placed[sing]]):
        ctx.oracle_fail("node-not-child-of-placed-edge", "mutation_nodes of a singleton is not the child of its edge", rp)


def corr_infer(ctx, items):
    """the switch of infer and the orientation of rescale against singleton_flow, and
    reallocate_unphased on the arguments infer passed, all bit for bit"""
    body = ""
    meta = []
    for case, obs in items:
        ep = obs["ep"]
        blocks = np.array(ep.mutation_blocks)
        sing = [int(m) for m in np.flatnonzero(blocks != -1)]
        if obs["raw"] is None or not sing:
            continue
        be = np.array(ep.block_edges).reshape(-1, 2)
        flows = clist(sing, lambda m: "singleton_flow FNum 0.5%%float %s %s %s" % (
            cnat(be[blocks[m], 0]), cnat(be[blocks[m], 1]), cfloat(obs["raw"][m])))
        body += "Eval vm_compute in %s.\n" % flows
        has_re = obs["realloc"] is not None
        if has_re:
            r = obs["realloc"]
            muts = clist(zip(blocks.tolist(), r["phase"].tolist()),
                         lambda bp: cpair(copt(bp[0] if bp[0] >= 0 else None, cnat), cfloat(bp[1])))
            body += "Eval vm_compute in (reallocate_list FNum %s %s %s %s %s).\n" % (
                cfloat(ATOL), cfloat(RTOL), clist(be.tolist(), lambda e: cpair(cnat(e[0]), cnat(e[1]))),
                clist(r["before"].tolist(), cfloat), muts)
        meta.append((case, obs, sing, has_re))
    if not body:
        return
    res = iter(ctx.coq_eval(body, requires=("lib.Num", "model.EP", "model.Phasing"), tag="flow"))
    for case, obs, sing, has_re in meta:
        ep = obs["ep"]
        flows = next(res)
        phase = np.array(ep.mutation_phase, dtype=float)
        placed = np.array(ep.mutation_edges)
        ok, why = True, ""
        for m, (pl, st, q) in zip(sing, flows):
            if int(pl) != int(placed[m]) or not E._same(st, phase[m]):
                ok, why = False, "singleton %d: impl edge %d phase %r, model edge %d phase %r" % (m, placed[m], phase[m], pl, st)
                break
            if has_re and not E._same(q, obs["realloc"]["phase"][m]):
                ok, why = False, "singleton %d: phase handed to reallocate_unphased %r, model %r" % (m, obs["realloc"]["phase"][m], q)
                break
        ctx.corr("infer-switch+rescale-orientation", ok, why, replay={"case": case})
        if has_re:
            m = next(res)
            mo = "assert" if m is None else [float(x) for x in m[1]]
            io = obs["realloc"]["after"]
            io = io if isinstance(io, str) else io.tolist()
            ctx.corr("reallocate_unphased@infer", mo == io if isinstance(mo, str) or isinstance(io, str) else E._same(mo, io),
                     "impl %r model %r" % (io, mo), replay={"case": case})


def infer_runs(ctx, model_ok, n):
    items = []
    for _ in range(n):
        c = infer_case(ctx.rng)
        obs = run_infer(c)
        if obs is None:
            ctx.tally("rejected")
            continue
        ep = obs["ep"]
        ns = int(np.sum(np.array(ep.mutation_blocks) != -1))
        flipped = int(np.sum(np.array(ep.mutation_phase)[np.array(ep.mutation_blocks) != -1] < 1)) if ns else 0
        second = 0
        if ns:
            be = np.array(ep.block_edges).reshape(-1, 2)
            blk = np.array(ep.mutation_blocks)
            sing = np.flatnonzero(blk != -1)
            second = int(np.sum(np.array(ep.mutation_edges)[sing] != be[blk[sing], 0]))
        ctx.case({"kind": c["kind"], "opts": c["opts"], "singletons": ns, "on_second_edge": second, "error": obs["error"]},
                 nontrivial=ns > 0 and obs["realloc"] is not None, kind="infer/" + c["kind"])
        ctx.tally("singletons", ns)
        ctx.tally("mutations-above-root", int(np.sum((np.array(ep.mutation_edges) == -1))))
        for k in c.get("exotic", []):
            ctx.tally("exotic-" + k)
        if c["opts"].get("twice"):
            ctx.tally("infer-called-twice")
        ctx.tally("sites-on-breakpoints", c.get("bp_sites", 0))
        ctx.tally("singletons-placed-on-second-edge", second)
        if obs["error"]:
            ctx.tally("infer-raised-" + obs["error"].split(":")[0])
        oracle_infer(ctx, c, obs)
        items.append((c, obs))
    if model_ok:
        corr_infer(ctx, items)


def run(ctx, model_ok=True):
    direct(ctx, model_ok)
    direct_ts(ctx, ctx.n(60, 500))
    infer_runs(ctx, model_ok, ctx.n(40, 300))


def search(ctx):
    for _ in range(ctx.n(300, 1500)):
        c = direct_case(ctx.rng)
        oracle_direct(ctx, c, run_direct(c))
        if ctx.oracle_fails:
            return
    for _ in range(ctx.n(200, 1000)):
        run_direct_ts(ctx, direct_ts_case(ctx.rng))
        if ctx.oracle_fails:
            return
    for _ in range(ctx.n(100, 500)):
        c = infer_case(ctx.rng)
        obs = run_infer(c)
        if obs is not None:
            oracle_infer(ctx, c, obs)
        if ctx.oracle_fails:
            return


def replay(ctx, data):
    payload = data["case"]
    before = len(ctx.oracle_fails)
    if "direct_ts" in payload:
        run_direct_ts(ctx, payload["direct_ts"])
    elif "direct" in payload:
        c = payload["direct"]
        oracle_direct(ctx, c, run_direct(c))
    else:
        obs = run_infer(payload["case"])
        if obs is not None:
            oracle_infer(ctx, payload["case"], obs)
    return len(ctx.oracle_fails) == before
