"""C35 -- invalid inputs are rejected cleanly and valid ones never crash.

Three parts:
 1. correspondence of the accept/reject decision, exception class and message, and of the
    shape of the returned value, between coq/model/Validate.v (evaluated in Coq) and the real
    date() / variational_gamma() / inside_outside() / maximization() over a malformed-parameter
    stream;
 2. the property oracle on the same calls, written from the property text (not from the
    model): listed invalid parameters must raise ValueError/NotImplementedError, valid
    parameters must not be blamed, nothing but ValueError/NotImplementedError may escape,
    returned values have the documented shape;
 3. exploration of "valid inputs never crash" over pathological valid tree sequences x valid
    parameters; crashes are identified by exception type + message + raising call chain + input
    flags and matched against the known findings (K2, K3, K7, K8, ...).
"""
import math
import os
import re
import warnings

import numpy as np

from props import _validate as K

ENV_BY_TIER = {"quick": {"NUMBA_DISABLE_JIT": "1"}, "thorough": {}}

RULE = ("malformed stream: a documented-valid parameter set for a random method (date() or the wrapper "
        "called directly) with 0-3 parameters replaced from boundary pools (None, 0, -0.0, negatives, NaN, "
        "+-inf, bool, int, float, numpy scalars, foreign keywords, priors, Ne, population-size dict/object) on "
        "small tree sequences (multi-tree, single tree, no mutations, historical samples, unary nodes); "
        "non-trivial = at least one deviation or a ts-dependent check; exploration stream: pathological valid "
        "tree sequences (gaps, missing data, root mutations, historical/internal samples, diploid unphased, "
        "unary, polytomies, continuous coordinates, 1e9 bp, 0-400 mutations, site table non-empty without "
        "mutations) x valid parameters (incl. cache_inside, num_threads=1, match_segregating_sites, unphased "
        "singletons, rescaling_intervals=0, both probability spaces) x mutation rates over 28 orders of magnitude; "
        "~40% of all tree sequences of both streams carry gen.exotic decorations (extra flag bits, all nodes "
        "renumbered, mutations above roots, mutation-free sites, unknown mutation times, arbitrary allele states, "
        "populations); on 50% of the exploration inputs the node and the mutation table independently get a "
        "metadata state out of 12 (no schema empty / raw bytes; permissive JSON empty / some / all rows; strict "
        "JSON requiring mn,vr empty / filled; struct codec with mn,vr fields empty / filled; struct with another "
        "field empty / filled; struct without properties), every row decodable, x set_metadata in {absent, None, "
        "True, False} x the three methods; numpy-typed scalars incl. numpy.bool_ and float32 in the pools; one "
        "priors object per "
        "tree sequence reused across calls; distinct by content hash")
ASSUME = ["the boolean tree-sequence facts handed to the model (no mutations, several trees, samples at "
          "time 0, unary nodes, prior builder accepts the ts) are computed by tskit / tsdate helper calls",
          "tskit validates tables when tree_sequence() is called",
          "classification of an exception into the model's message tags by message prefix (table MSG_TAGS)"]
LEVEL = "proof"

PARAM_TAGS = {"T_method", "T_eps_variational", "T_return_posteriors", "T_recombination", "T_popsize_dict",
              "T_constr_iterations", "T_min_branch_length", "T_priors_unused", "T_popsize_unused",
              "T_popsize_required", "T_popsize_nonpositive", "T_popsize_infinite", "T_popsize_and_priors",
              "T_ne_both", "T_max_iterations", "T_variational_needs_rate", "T_rate_positive",
              "T_maximization_needs_rate", "T_probability_space", "T_unexpected_kwarg"}


# ------------------------------------------------------------------ spec from the property text
def _num(v):
    return None if v is None else K.PY(v)


def _gt0(x):
    return bool(x > 0)


def spec(case):
    """(must_reject reasons, ambiguous reasons, foreign keywords?) from the documentation"""
    p = case["params"]
    method = p.get("method")
    m = method if method is not None else "variational_gamma"
    must, amb = [], []
    if m not in K.METHODS:
        return ["method"], [], False
    foreign = [k for k, v in p.items() if v is not None and k not in K.accepted_by(m)]
    if p.get("recombination_rate") is not None:
        must.append("recombination_rate")
    if p.get("return_posteriors") is not None:
        amb.append("return_posteriors")      # deprecated: rejected, but not in the property's list
    mbl = _num(p.get("min_branch_length"))
    if mbl is not None and not (_gt0(mbl) and math.isfinite(float(mbl))):
        must.append("min_branch_length")
    ci = _num(p.get("constr_iterations"))
    if ci is not None:
        f = float(ci)
        if math.isnan(f) or math.isinf(f) or f < 0 or f != math.floor(f):
            must.append("constr_iterations")
        elif not isinstance(ci, int):
            amb.append("constr_iterations-not-int")   # 1.0 / numpy.int64(3): integral value of another type
    rate = _num(p.get("mutation_rate"))
    if rate is not None and not _gt0(rate):
        must.append("mutation_rate")
    pop = p.get("population_size")
    if m == "variational_gamma":
        mi = _num(p.get("max_iterations"))
        if mi is not None and not _gt0(mi):
            must.append("max_iterations")
        if pop is not None:
            must.append("population_size-unused")
        if p.get("priors") is not None:
            must.append("priors-unused")
        if p.get("eps") is not None:
            must.append("eps")
        if case["facts"]["nomut"]:
            must.append("no-mutations")
        if rate is None:
            amb.append("rate-none")
    else:
        ne = p.get("Ne")
        if ne is not None and pop is not None:
            amb.append("ne-both")
        eff = pop if pop is not None else ne
        if p.get("priors") is not None and eff is not None:
            amb.append("pop-and-priors")
        if p.get("priors") is None:
            if eff is None:
                amb.append("pop-required")
            elif eff.get("k") == "dict":
                if not eff["ok"]:
                    amb.append("pop-dict-bad")
            elif eff.get("k") in ("obj", "ndarray"):
                pass
            else:
                x = float(K.PY(eff))
                if not (x > 0) or math.isinf(x):
                    amb.append("pop-not-positive-finite")
        if p.get("probability_space") not in (None, "linear", "logarithmic"):
            amb.append("probability_space")
        if rate is None:
            amb.append("rate-none")
        epsv = _num(p.get("eps"))
        if epsv is not None and not (float(epsv) >= 0):
            amb.append("eps-negative")
    return must, amb, bool(foreign)


def input_flags(case):
    """input predicates that narrow a crash signature"""
    p = case["params"]
    fl = []
    rate = _num(p.get("mutation_rate"))
    if rate is not None:
        r = float(rate)
        if math.isinf(r):
            fl.append("rate=inf")
        elif r > 0 and r < 1e-100:
            fl.append("rate<1e-100")
        elif r > 1e100:
            fl.append("rate>1e100")
        elif 0 < r < 1e-10:
            fl.append("rate<1e-10")
        elif r > 1e10:
            fl.append("rate>1e10")
    ms = _num(p.get("max_shape"))
    if ms is not None and not (float(ms) > 1):
        fl.append("max_shape<=1")
    mbl = _num(p.get("min_branch_length"))
    if mbl is not None:
        if math.isinf(float(mbl)):
            fl.append("mbl=inf")
    pop = p.get("population_size")
    if pop is not None and pop.get("k") == "npint":
        fl.append("popsize=npint")
    if pop is not None and pop.get("k") == "ndarray":
        fl.append("popsize=ndarray")
    if pop is not None and pop.get("k") == "npbool":
        fl.append("popsize=npbool")
    sp = _num(p.get("singletons_phased"))
    if sp is not None and not sp:
        fl.append("unphased")
    return fl


def diagnose_time_order(case, ts):
    """K7: re-run the dating method up to the posterior means, constrain them as
    get_modified_ts does, and look at what tskit rejected"""
    import tsdate
    from tsdate import core, util
    p = case["params"]
    kw = K.build_kwargs(case, ts)
    method = kw.pop("method", None)
    if case.get("entry", "date") != "date":
        method = case["entry"]
    method = method or "variational_gamma"
    flags = []
    try:
        with warnings.catch_warnings():
            warnings.simplefilter("ignore")
            with np.errstate(all="ignore"):
                kw["return_fit"] = True
                kw["return_likelihood"] = False
                # stop get_modified_ts from raising: take the posterior means from the fit
                init_names = ("mutation_rate", "population_size", "priors", "allow_unary", "constr_iterations",
                              "min_branch_length", "record_provenance")
                init = {k: kw[k] for k in init_names if k in kw}
                if "Ne" in kw and kw.get("population_size") is None:
                    init["population_size"] = kw["Ne"]
                init["record_provenance"] = False
                if method == "variational_gamma":
                    init.pop("population_size", None)
                    init.pop("priors", None)
                    dm = core.VariationalGammaMethod(ts, **init)
                    res = dm.run(
                        max_iterations=kw.get("max_iterations") or core.DEFAULT_MAX_ITERATIONS,
                        max_shape=kw.get("max_shape") or 1000,
                        rescaling_intervals=core.DEFAULT_RESCALING_INTERVALS if kw.get("rescaling_intervals") is None else kw["rescaling_intervals"],
                        rescaling_iterations=core.DEFAULT_RESCALING_ITERATIONS if kw.get("rescaling_iterations") is None else kw["rescaling_iterations"],
                        match_segregating_sites=bool(kw.get("match_segregating_sites")),
                        regularise_roots=True if kw.get("regularise_roots") is None else kw["regularise_roots"],
                        singletons_phased=True if kw.get("singletons_phased") is None else kw["singletons_phased"])
                elif method == "inside_outside":
                    dm = core.InsideOutsideMethod(ts, **init)
                    res = dm.run(eps=kw.get("eps") or core.DEFAULT_EPSILON, num_threads=kw.get("num_threads"),
                                 outside_standardize=True if kw.get("outside_standardize") is None else kw["outside_standardize"],
                                 ignore_oldest_root=bool(kw.get("ignore_oldest_root")), cache_inside=False,
                                 probability_space=kw.get("probability_space") or "logarithmic")
                else:
                    dm = core.MaximizationMethod(ts, **init)
                    res = dm.run(eps=kw.get("eps") or core.DEFAULT_EPSILON, num_threads=kw.get("num_threads"),
                                 cache_inside=False, probability_space=kw.get("probability_space") or "logarithmic")
                mean = np.asarray(res.posterior_mean, dtype=float)
                if not np.all(np.isfinite(mean)):
                    flags.append("nonfinite-posterior-mean")
                    return flags
                t = util.constrain_ages(ts, mean, dm.min_branch_length, dm.constr_iterations)
                eps = dm.min_branch_length
                tp = t[ts.edges_parent]
                tc = t[ts.edges_child]
                bad = tp <= tc
                if np.any(bad):
                    if np.all((tc[bad] + eps) == tc[bad]):
                        flags.append("absorb")          # t[c] + eps rounds to t[c]
                    else:
                        flags.append("order-violated")
                else:
                    # what get_modified_ts does next: mutation times spread along the branches
                    import tskit
                    tables = ts.dump_tables()
                    tables.nodes.time = t
                    tables.mutations.node = res.mutation_node
                    tables.mutations.time = np.full(tables.mutations.num_rows, tskit.UNKNOWN_TIME)
                    tables.mutations.parent = np.full(tables.mutations.num_rows, tskit.NULL, dtype=np.int32)
                    tables.sort()
                    tables.build_index()
                    tables.compute_mutation_parents()
                    tables.compute_mutation_times()
                    mt = tables.mutations.time
                    pos = tables.sites.position[tables.mutations.site]
                    rounded = False
                    for j in range(tables.mutations.num_rows):
                        u = tables.mutations.node[j]
                        for e in range(ts.num_edges):
                            if ts.edges_child[e] == u and ts.edges_left[e] <= pos[j] < ts.edges_right[e]:
                                if mt[j] >= t[ts.edges_parent[e]] and t[ts.edges_parent[e]] > t[u]:
                                    rounded = True
                                break
                    flags.append("mut-time-rounds-to-parent" if rounded else "order-ok")
    except Exception as e:   # noqa: BLE001
        flags.append("diagnose-failed:" + type(e).__name__)
    return flags


def crash_sig(case, ts, r):
    fl = input_flags(case)
    if case.get("meta"):
        fl.append("meta=%s/%s" % tuple(case["meta"]))
    if ts.num_mutations == 0:
        fl.append("muts=0")
    elif all(m.edge == -1 for m in ts.mutations()):
        fl.append("muts-on-no-edge")
    if r["type"] == "LibraryError" and ("TSK_ERR_BAD_NODE_TIME_ORDERING" in r["msg"] or
                                        "A mutation's time must be <" in r["msg"] or "TSK_ERR_TIME_NONFINITE" in r["msg"]):
        fl += diagnose_time_order(case, ts)
    msg = re.sub(r"\s+", " ", r["msg"])[:70]
    return "crash|%s|%s|%s|%s" % (r["type"], msg, ">".join(r["chain"][-4:]), ",".join(fl))


# ------------------------------------------------------------------ oracle
def oracle(ctx, case, ts, r, explore=False):
    must, amb, foreign = spec(case)
    rp = {"case": case, "ts": K.gen.ts_tables_dict(ts), "ts_meta": K.meta_dict(ts),
          "outcome": {k: v for k, v in r.items() if k != "result"}}
    shown = K.show_case(case)
    if r["kind"] == "exc":
        clean = r["type"] in ("ValueError", "NotImplementedError")
        if clean:
            if not r["has_msg"]:
                ctx.oracle_fail("no-message|%s|%s" % (r["type"], ">".join(r["chain"][-2:])),
                                "exception without a message", rp)
            tag = r["tag"][1] if r["tag"] else None
            if not must and not amb and not foreign and tag in PARAM_TAGS:
                ctx.oracle_fail("valid-rejected|%s" % tag,
                                "documented-valid parameters %r were rejected: %s" % (shown, r["msg"]), rp)
            return
        if r["type"] == "TypeError" and foreign and "unexpected keyword" in r["msg"]:
            return          # Python's own rejection of a keyword the method does not have
        if must and not foreign and not (r["type"] == "AttributeError" and "popsize=npbool" in input_flags(case)):
            extra = ""
            if must == ["mutation_rate"] and case["params"].get("method") in ("inside_outside", "maximization"):
                x = float(_num(case["params"]["mutation_rate"]))
                extra = "|%s|rate=%s" % (case["params"]["method"], "nan" if math.isnan(x) else ("zero" if x == 0 else "neg"))
            ctx.oracle_fail("invalid-not-rejected-cleanly|%s|%s|%s%s" % (",".join(must), r["type"], r["msg"][:50], extra),
                            "invalid input %r (%s) must be rejected with ValueError/NotImplementedError but %s "
                            "escaped: %s" % (shown, must, r["type"], r["msg"]), rp)
            return
        ctx.oracle_fail(crash_sig(case, ts, r),
                        "%s escaped from %s: %s" % (r["type"], shown, r["msg"]), rp)
        return
    # returned normally
    if must:
        if must == ["mutation_rate"] and case["params"].get("method") in ("inside_outside", "maximization"):
            x = float(_num(case["params"]["mutation_rate"]))
            rc = "nan" if math.isnan(x) else ("zero" if x == 0 else "neg")
            sig = "invalid-accepted|mutation_rate|%s|rate=%s|nomut=%s" % (
                case["params"]["method"], rc, case["facts"]["nomut"])
        else:
            sig = "invalid-accepted|%s" % ",".join(must)
        ctx.oracle_fail(sig, "invalid input %r (%s) was accepted and a result returned" % (shown, must), rp)
    p = case["params"]
    want = ["RTreeSequence"]
    if _num(p.get("return_fit")):
        want.append("RFit")
    if _num(p.get("return_likelihood")):
        want.append("RLikelihood")
    # NaN is truthy in Python
    for k, nm in (("return_fit", "RFit"), ("return_likelihood", "RLikelihood")):
        v = _num(p.get(k))
        if isinstance(v, float) and math.isnan(v) and nm not in want:
            want.append(nm)
    want = ["RTreeSequence"] + [x for x in ("RFit", "RLikelihood") if x in want]
    if r["items"] != want or r["tuple"] != (len(want) > 1):
        ctx.oracle_fail("shape|want=%s|got=%s" % ("+".join(want), "+".join(r["items"])),
                        "returned %r (tuple=%s) for %r" % (r["items"], r["tuple"], shown), rp)


# ------------------------------------------------------------------ the run
def make_pool(rng):
    pool = {}
    for kind, k in (("multi", 3), ("single", 2), ("nomut_multi", 1), ("nomut_single", 1),
                    ("historical", 2), ("unary", 2), ("sitesnomut_bare", 2), ("sitesnomut_cleared", 2),
                    ("sitesnomut_subset", 2), ("rootmuts_only", 2), ("isolated_only", 2)):
        pool[kind] = []
        for _ in range(k):
            ts = K.small_ts(rng, kind)
            ts, _ex = K.decorate(rng, ts, keep_mutation_free=(ts.num_mutations == 0))
            pool[kind].append(ts)
    return pool


def param_stream(ctx, n, model_ok):
    pool = make_pool(ctx.rng)
    cases, tss = [], []
    for _ in range(n):
        c = K.malformed_case(ctx.rng, pool)
        ts = pool[c["ts_kind"]][c["ts_index"]]
        K.finalize_case(c, ts)
        cases.append(c)
        tss.append(ts)
    impl = [K.call(c, ts) for c, ts in zip(cases, tss)]
    model = None
    if model_ok:
        model = K.run_model(ctx, cases)
    for i, (c, ts, r) in enumerate(zip(cases, tss, impl)):
        got = "Proceed" if (r["kind"] == "ok" or r["tag"] is None) else tuple(r["tag"])
        must, amb, foreign = spec(c)
        nontrivial = bool(must or amb or foreign) or c["ts_kind"] not in ("multi", "single")
        ctx.case(dict(K.show_case(c), outcome=(got if got == "Proceed" else list(got))), nontrivial=nontrivial,
                 kind=("reject:" + got[1]) if got != "Proceed" else "proceed")
        rp = {"case": c, "ts": K.gen.ts_tables_dict(ts), "impl": {k: v for k, v in r.items() if k != "result"}}
        if model is not None:
            mo, ms = model[i]
            mo2 = mo if mo == "Proceed" else tuple(mo)
            ctx.corr("decide", mo2 == got, "model %r, implementation %r (%s) for %r" % (
                mo2, got, r.get("msg", "returned"), K.show_case(c)), replay=dict(rp, model=mo2))
            if r["kind"] == "ok":
                kind, items = ms
                ctx.corr("parse_result", items == r["items"] and (kind == "tuple") == r["tuple"],
                         "model %r, implementation %r tuple=%s for %r" % (ms, r["items"], r["tuple"], K.show_case(c)),
                         replay=dict(rp, model=ms))
        oracle(ctx, c, ts, r)


def explore(ctx, n):
    for _ in range(n):
        c, ts = K.patho_case(ctx.rng)
        K.finalize_case(c, ts)
        r = K.call(c, ts)
        ctx.case(dict(K.show_case(c), nodes=int(ts.num_nodes), trees=int(ts.num_trees), muts=int(ts.num_mutations),
                      outcome=r["kind"] if r["kind"] == "ok" else r["type"]),
                 nontrivial=True, kind="explore:" + c["ts_kind"].split(":")[1].split("+")[0] + ("/ok" if r["kind"] == "ok" else "/" + r["type"]))
        if c.get("meta"):
            ctx.tally("explore:meta:nodes=%s" % c["meta"][0])
            ctx.tally("explore:meta:mutations=%s" % c["meta"][1])
        if "+" in c["ts_kind"]:
            ctx.tally("explore:exotic")
        oracle(ctx, c, ts, r, explore=True)


def corpus(ctx):
    """hand-made inputs of the known findings (DESIGN.md section 9 + this check's own) run first"""
    import json
    d = os.path.join(os.path.dirname(__file__), "..", "..", "corpus", "C35")
    if not os.path.isdir(d):
        return
    for fn in sorted(os.listdir(d)):
        if not fn.endswith(".json"):
            continue
        data = json.load(open(os.path.join(d, fn)))
        ts = K.meta_from_dict(K.gen.ts_from_dict(data["ts"]), data.get("ts_meta"))
        c = data["case"]
        K.finalize_case(c, ts)
        r = K.call(c, ts)
        nk = len(ctx.known_hits)
        ctx.case(dict(K.show_case(c), corpus=fn), nontrivial=True, kind="corpus")
        oracle(ctx, c, ts, r)
        ctx.notes.setdefault("corpus", {})[fn] = (
            "known finding " + ctx.known_hits[-1][0].get("id", "?") if len(ctx.known_hits) > nk
            else ("returned" if r["kind"] == "ok" else r["type"] + ": " + r["msg"][:60]))


def run(ctx, model_ok=True):
    corpus(ctx)
    param_stream(ctx, ctx.n(1200, 6000), model_ok)
    explore(ctx, ctx.n(400, 4000))


def search(ctx):
    """a tie broke and the oracle saw nothing yet: 6x more parameter cases, oracle only"""
    pool = make_pool(ctx.rng)
    for _ in range(ctx.n(2500, 10000)):
        c = K.malformed_case(ctx.rng, pool)
        ts = pool[c["ts_kind"]][c["ts_index"]]
        K.finalize_case(c, ts)
        oracle(ctx, c, ts, K.call(c, ts))
        if ctx.oracle_fails:
            return


def replay(ctx, data):
    rp = data.get("case") or {}
    case = rp.get("case")
    if case is None:
        return True
    ts = K.meta_from_dict(K.gen.ts_from_dict(rp["ts"]), rp.get("ts_meta"))
    K.finalize_case(case, ts)
    r = K.call(case, ts)
    before = len(ctx.oracle_fails)
    oracle(ctx, case, ts, r)
    return len(ctx.oracle_fails) == before and not ctx.known_hits
