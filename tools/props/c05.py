"""C05 -- variational posteriors are proper, precision-capped gamma distributions."""
import math

import numpy as np

from props import _ep as E
from vlib.coqfmt import cfloat, clist, cpair

ENV_BY_TIER = {"quick": {"NUMBA_DISABLE_JIT": "1"}, "thorough": {}}
COQ_TARGETS = ["props/C05.vo", "model/Phasing.vo"]   # the shared infer-switch tie evaluates model/Phasing.v

RULE = ("(a) _damp / _rescale called directly on generated (posterior, message, step) and (posterior, max_shape) "
        "tuples: proper, zero, boundary (1+alpha == s, == 1/s) and improper (assertion) ones; (b) tape cases as in "
        "C21 with max_shape in 1.0001..20 so that the cap fires; (c) real tsdate.date(variational_gamma) calls on "
        "msprime inputs (haploid / diploid unphased / historical / internal samples / stars / unary chains with "
        "allow_unary; 40% decorated by gen.exotic: renumbered nodes, extra flag bits, mutations above local roots which "
        "must stay undefined, mutation-free sites, unknown times, allele states, populations) x max_shape (1.0001..1000) "
        "x mutation_rate (1e-6..1e3, to provoke skipped updates) x iterations x rescaling off (intervals=0 or iterations=0) / on "
        "x match_segregating_sites x singletons_phased x numpy-typed option scalars. "
        "Non-trivial when at least one non-sample node was updated; distinct by content hash")
ASSUME = ["every-node-updated and the post-rescaling re-projection are only explored by the oracle (not proved)",
          "the approx projections are replayed (tape), not recomputed"]


# ---------------------------------------------------------------- (a) helpers, bit for bit
def helper_inputs(rng, n):
    damp, resc = [], []
    for _ in range(n):
        style = rng.choice(["proper", "proper", "proper", "zero", "bad", "tight"])
        s = rng.choice([0.1, 0.5, 0.01, 0.9, 0.1, 0.5, 0.0, 1.0, 1e-300])   # 0 and 1 exactly: must assert
        if style == "zero":
            x = (0.0, 0.0)
            y = rng.choice([(0.0, 0.0), (0.0, 0.0), (1.0, 2.0)])
        else:
            a = rng.choice([rng.uniform(-0.99, 5), 10 ** rng.uniform(-2, 4), float(rng.randint(0, 50))])
            b = 10 ** rng.uniform(-8, 8)
            x = (a, b)
            if style == "bad":
                x = rng.choice([(-1.0, b), (-2.5, b), (a, 0.0), (a, -b)])
            if style == "tight":   # message takes (almost) the whole posterior: damping must kick in
                y = (a * rng.choice([1.0, 0.999, 1.5, 0.95]) + rng.choice([0.0, 1.0]), b * rng.choice([1.0, 0.999, 2.0, 0.95]))
            else:
                y = (rng.uniform(-2, 2) * (abs(a) + 1), rng.uniform(-1, 1.5) * b)
        damp.append((x, y, s))
    for _ in range(n):
        S = rng.choice([1.0, 1.0001, 1.5, 2.0, 5.0, 20.0, 1000.0, float("inf")])
        style = rng.choice(["proper", "over", "under", "edge", "zero", "bad"])
        if S == float("inf"):
            style = rng.choice(["proper", "zero", "bad", "huge"])
        b = 10 ** rng.uniform(-8, 8)
        if style == "zero":
            x = (0.0, 0.0)
        elif style == "over":
            x = (S - 1 + 10 ** rng.uniform(-3, 4), b)
        elif style == "under":
            x = (1 / S - 1 - rng.random() * (1 / S) * 0.999, b)
        elif style == "edge":
            x = (rng.choice([S - 1, 1 / S - 1, 0.0]), b)
        elif style == "bad":
            x = rng.choice([(-1.0, b), (-3.0, b), (1.0, 0.0), (1.0, -b)])
        elif S == float("inf"):
            x = (10 ** rng.uniform(-3, 300) if style == "huge" else rng.uniform(-0.99, 50), b)
        else:
            x = (rng.uniform(1 / S - 1, S - 1), b)
        resc.append((x, S))
    return damp, resc


def helpers(ctx, model_ok):
    import tsdate.variational as V
    n = ctx.n(250, 1500)
    damp, resc = helper_inputs(ctx.rng, n)

    def call(f, *a):
        try:
            with np.errstate(all="ignore"):
                return float(f(*a))
        except AssertionError:
            return "assert"
        except ZeroDivisionError:
            return "zerodiv"
    idamp = [call(V._damp, np.array(x, dtype=float), np.array(y, dtype=float), float(s)) for x, y, s in damp]
    iresc = [call(V._rescale, np.array(x, dtype=float), float(S)) for x, S in resc]
    # the property of the two helpers, on the implementation's own outputs
    for (x, y, s), d in zip(damp, idamp):
        ctx.case({"fn": "_damp", "x": x, "y": y, "s": s, "out": d}, nontrivial=d not in ("assert", "zerodiv") and d != 1.0, kind="damp/" + ("asserts" if isinstance(d, str) else ("damped" if d < 1 else "one")))
        if isinstance(d, str) or x == (0.0, 0.0):
            continue
        sh = x[0] + 1 - d * y[0]
        rt = x[1] - d * y[1]
        # up to the rounding of the two subtractions (the bound is exact over the reals: C05_damp_keeps_positive;
        # with an absurdly small step such as 1e-300 the computed cavity shape can be -2e-16)
        tol_sh = 1e-12 * (abs(x[0] + 1) + abs(d * y[0]))
        tol_rt = 1e-12 * (abs(x[1]) + abs(d * y[1]))
        if not (0 < d <= 1 and sh >= s * (x[0] + 1) - tol_sh and rt >= s * x[1] - tol_rt):
            ctx.oracle_fail("damp-cavity", "_damp(%r, %r, %r) = %r leaves cavity shape %r rate %r" % (x, y, s, d, sh, rt),
                            {"fn": "_damp", "x": x, "y": y, "s": s})
    for (x, S), e in zip(resc, iresc):
        ctx.case({"fn": "_rescale", "x": x, "S": S, "out": e}, nontrivial=not isinstance(e, str) and e != 1.0, kind="rescale/" + ("asserts" if isinstance(e, str) else ("capped" if e != 1 else "one")))
        if isinstance(e, str) or x == (0.0, 0.0) or S <= 1.0 or S == float("inf"):
            continue
        sh = e * x[0] + 1
        if not (e > 0 and 1 / S * (1 - 1e-12) <= sh <= S * (1 + 1e-12)):
            ctx.oracle_fail("rescale-cap", "_rescale(%r, %r) = %r gives shape %r" % (x, S, e, sh), {"fn": "_rescale", "x": x, "S": S})
    if not model_ok:
        return
    body = "Eval vm_compute in %s.\n" % clist(
        ["damp (N:=FNum) %s %s %s" % (E.cv2(x), E.cv2(y), cfloat(s)) for x, y, s in damp])
    body += "Eval vm_compute in %s.\n" % clist(
        ["rescale1 (N:=FNum) %s %s" % (E.cv2(x), cfloat(S)) for x, S in resc])
    md, mr = ctx.coq_eval(body, requires=("lib.Num", "model.EP"), tag="helpers")

    def same(impl, mod):
        if mod is None:
            return impl == "assert"
        if isinstance(impl, str):
            return impl == "zerodiv"    # python raises ZeroDivisionError where IEEE gives inf/nan and the assertion follows
        v = float(mod[1])
        return (math.isnan(v) and math.isnan(impl)) or v == impl
    for (x, y, s), a, b in zip(damp, idamp, md):
        ctx.corr("_damp", same(a, b), "_damp(%r, %r, %r): impl %r model %r" % (x, y, s, a, b), replay={"fn": "_damp", "x": x, "y": y, "s": s})
    for (x, S), a, b in zip(resc, iresc, mr):
        ctx.corr("_rescale", same(a, b), "_rescale(%r, %r): impl %r model %r" % (x, S, a, b), replay={"fn": "_rescale", "x": x, "S": S})


# ---------------------------------------------------------------- (c) the property on real runs
def date_case(rng):
    c = E.make_case(rng, kind=rng.choice(["plain", "diploid", "diploid", "diploid", "historical", "internal",
                                            "dip-internal", "star", "unary"]))
    o = c["opts"]
    o["max_shape"] = rng.choice([1.0001, 1.5, 2.0, 3.0, 5.0, 20.0, 20.0, 100.0, 1000.0])
    o["mutation_rate"] = rng.choice([1e-6, 1e-3, 1e-2, 0.1, 1.0, 1.0, 30.0, 1e3])
    o["iterations"] = rng.choice([1, 2, 5, 10])
    # rescaling off (either count exactly 0) / on with few or many intervals; both count arrays
    o["rescaling_intervals"], o["rescaling_iterations"] = rng.choice([(0, 5), (3, 0), (3, 5), (10, 5), (1, 1), (1000, 2)])
    o["segsites"] = rng.random() < 0.5
    o["np_types"] = rng.random() < 0.3
    return c


def check_fit(ctx, case, ts, fit, where):
    o = case["opts"]
    S = o["max_shape"]
    samples = set(int(u) for u in ts.samples())
    nonsample = np.array([u not in samples for u in range(ts.num_nodes)])
    np_ = fit.node_posteriors()
    mn, va = np_["mean"][nonsample], np_["variance"][nonsample]
    replay = {"case": case, "where": where}
    if not (np.all(np.isfinite(mn)) and np.all(np.isfinite(va)) and np.all(mn > 0) and np.all(va > 0)):
        bad = np.flatnonzero(~(np.isfinite(mn) & np.isfinite(va) & (mn > 0) & (va > 0)))
        alpha = fit.node_posterior[nonsample][bad[0]]
        sig = "node-never-updated" if (alpha[0] == 0 and alpha[1] == 0) else "node-improper"
        ctx.oracle_fail(sig + ":" + where, "non-sample node with mean %r variance %r (natural %r)" % (mn[bad[0]], va[bad[0]], alpha.tolist()), replay)
        return False
    with np.errstate(all="ignore"):
        shape = mn ** 2 / va
    if not np.all(shape <= S * (1 + 1e-9)):
        ctx.oracle_fail("shape-above-cap:" + where, "shape %r > max_shape %r" % (float(np.max(shape)), S), replay)
        return False
    mp = fit.mutation_posteriors()
    mm, mv = mp["mean"], mp["variance"]
    und = np.isnan(mm) & np.isnan(mv)
    good = np.isfinite(mm) & np.isfinite(mv) & (mm > 0) & (mv > 0)
    if not np.all(und | good):
        k = int(np.flatnonzero(~(und | good))[0])
        ctx.oracle_fail("mutation-improper:" + where, "mutation %d has mean %r variance %r" % (k, mm[k], mv[k]), replay)
        return False
    above_root = np.asarray(fit.mutation_edges) == -1
    ctx.tally("mutations-above-root", int(np.sum(above_root)))
    if np.any(above_root & ~und):
        k = int(np.flatnonzero(above_root & ~und)[0])
        ctx.oracle_fail("root-mutation-defined:" + where, "mutation %d sits above a local root (on no edge) but has posterior mean %r"
                        % (k, mm[k]), replay)
        return False
    ph = np.asarray(fit.mutation_phase, dtype=float)
    okp = np.isnan(ph) | ((ph >= 0.5) & (ph <= 1.0))
    if not np.all(okp):
        k = int(np.flatnonzero(~okp)[0])
        ctx.oracle_fail("phase-out-of-range:" + where, "mutation %d has phase %r" % (k, ph[k]), replay)
        return False
    ctx.tally("undefined-mutation-posteriors", int(np.sum(und)))
    ctx.tally("undefined-phases", int(np.sum(np.isnan(ph))))
    ctx.tally("phases-below-one", int(np.sum(ph < 1.0)))
    ctx.tally("nodes-at-cap", int(np.sum(shape >= S * (1 - 1e-9))))
    return True


def date_run(ctx, case):
    import tsdate
    ts = E.case_ts(case)
    o = case["opts"]
    def ty(x):
        if not o.get("np_types"):
            return x
        return np.bool_(x) if isinstance(x, bool) else (np.int64(x) if isinstance(x, int) else np.float64(x))
    try:
        with np.errstate(all="ignore"):
            _d, fit = tsdate.date(ts, mutation_rate=ty(o["mutation_rate"]), method="variational_gamma",
                                  max_iterations=ty(o["iterations"]), max_shape=ty(o["max_shape"]),
                                  regularise_roots=ty(o["regularise"]), singletons_phased=ty(o["singletons_phased"]),
                                  rescaling_intervals=ty(o["rescaling_intervals"]),
                                  rescaling_iterations=ty(o.get("rescaling_iterations", 5)),
                                  match_segregating_sites=ty(o.get("segsites", False)),
                                  allow_unary=o.get("allow_unary", False), return_fit=True, progress=False)
    except Exception as e:    # rejected / crashing inputs are C35's business
        ctx.tally("date-raised-" + type(e).__name__)
        return None
    return check_fit(ctx, case, ts, fit, "date")


def run(ctx, model_ok=True):
    helpers(ctx, model_ok)
    # (b) tape cases with the cap active
    cases = [E.make_case(ctx.rng, small_shape=True) for _ in range(ctx.n(12, 80))]
    recs = E.record_all(cases)
    keep = [(c, r) for c, r in zip(cases, recs) if "static" in r and (sum(r["static"]["free"]) < 8 or not c["opts"]["regularise"])]
    if model_ok:
        E.correspondence(ctx, [c for c, _ in keep], [r for _, r in keep])
    for c, r in keep:
        S = c["opts"]["max_shape"]
        ctx.case({"kind": c["kind"], "opts": c["opts"], "projection_calls": len(r["tape"])}, nontrivial=len(r["tape"]) > 0, kind="tape/" + c["kind"])
        con = np.asarray(r["static"]["constraints"], dtype=float)
        for st in r["states"]:
            po = np.asarray(st["post"], dtype=float)
            for u in range(len(po)):
                a, b = po[u]
                if a == 0 and b == 0:
                    continue
                if not (1 / S * (1 - 1e-9) <= a + 1 <= S * (1 + 1e-9) and b > 0):
                    ctx.oracle_fail("state-improper", "node %d natural parameters %r with max_shape %r" % (u, po[u].tolist(), S),
                                    {"case": c, "where": "tape"})
                    break
    for _ in range(ctx.n(45, 400)):
        c = date_case(ctx.rng)
        r = date_run(ctx, c)
        ctx.case({"kind": c["kind"], "opts": c["opts"], "result": r, "exotic": c.get("exotic", [])}, nontrivial=r is not None, kind="date/" + c["kind"])
        for k in c.get("exotic", []):
            ctx.tally("exotic-" + k)
    # the phase switch of infer() against the model (shared with C23), and its range on the fit object
    from props import c23
    items = []
    for _ in range(ctx.n(10, 80)):
        c = c23.infer_case(ctx.rng)
        obs = c23.run_infer(c)
        if obs is None:
            continue
        items.append((c, obs))
        ph = np.asarray(obs["ep"].mutation_phase, dtype=float)
        ctx.case({"kind": c["kind"], "opts": c["opts"], "switch": True}, nontrivial=bool(np.any(ph < 1)), kind="infer-switch")
        if not np.all(np.isnan(ph) | ((ph >= 0.5) & (ph <= 1.0))):
            ctx.oracle_fail("phase-out-of-range:infer", "mutation_phase %r" % ph[~(np.isnan(ph) | ((ph >= 0.5) & (ph <= 1.0)))][:5].tolist(),
                            {"case": c, "where": "infer"})
    if model_ok:
        c23.corr_infer(ctx, items)


def search(ctx):
    for _ in range(ctx.n(300, 1500)):
        date_run(ctx, date_case(ctx.rng))
        if ctx.oracle_fails:
            return


def replay(ctx, data):
    payload = data["case"]
    before = len(ctx.oracle_fails)
    if "fn" in payload:
        import tsdate.variational as V
        try:
            if payload["fn"] == "_damp":
                x, y, s = payload["x"], payload["y"], payload["s"]
                d = float(V._damp(np.array(x, dtype=float), np.array(y, dtype=float), float(s)))
                return (0 < d <= 1 and x[0] + 1 - d * y[0] >= s * (x[0] + 1) - 1e-12 * (abs(x[0] + 1) + abs(d * y[0]))
                        and x[1] - d * y[1] >= s * x[1] - 1e-12 * (abs(x[1]) + abs(d * y[1])))
            x, S = payload["x"], payload["S"]
            e = float(V._rescale(np.array(x, dtype=float), float(S)))
            return e > 0 and 1 / S * (1 - 1e-12) <= e * x[0] + 1 <= S * (1 + 1e-12)
        except AssertionError:
            return True
    case = payload["case"]
    if payload.get("where") == "infer":
        from props import c23
        obs = c23.run_infer(case)
        if obs is None:
            return True
        ph = np.asarray(obs["ep"].mutation_phase, dtype=float)
        return bool(np.all(np.isnan(ph) | ((ph >= 0.5) & (ph <= 1.0))))
    if payload.get("where") == "tape":
        rec = E.record_all([case])[0]
        S = case["opts"]["max_shape"]
        for st in rec.get("states", []):
            for a, b in st["post"]:
                if (a != 0 or b != 0) and not (1 / S * (1 - 1e-9) <= a + 1 <= S * (1 + 1e-9) and b > 0):
                    return False
        return True
    date_run(ctx, case)
    return len(ctx.oracle_fails) == before
