"""C24 -- per-edge mutation, span and singleton-block tallies are exact."""
import numpy as np

from props import _sweep as S
from vlib.coqfmt import cZ, cnat, cbool, clist

ENV_BY_TIER = {"quick": {"NUMBA_DISABLE_JIT": "1"}, "thorough": {}}

RULE = ("integer-coordinate tree sequences: msprime (haploid and ploidy=2 individuals, Kingman/Beta/Dirac, "
        "historical and internal samples) through structural mutators (cut part of an edge, delete an interval, "
        "isolate a sample over an interval = missing data, keep_unary subset) and msprime-free random DAG tables "
        "(polytomies, several roots, isolated nodes, diploid individuals), plus extra mutations on arbitrary nodes "
        "(above roots, on isolated nodes, beyond the last edge, several per site, 40% exactly on tree breakpoints); "
        "tied node times; ~40% of the inputs decorated by gen.exotic (extra flag bits, ALL nodes renumbered, root "
        "mutations, mutation-free sites incl. num_sites == num_mutations, unknown times, arbitrary states, "
        "populations); 20% with chromosome-scale integer coordinates (next to 2^24, 2^25, 2^31, 1e8, 3e8); "
        "x plain / size-biased / custom "
        "sample mask; x random sets of unphased individuals. Non-trivial = at least one edge and one mutation")
ASSUME = ["tskit's tables satisfy valid_tablesb (checked inside Coq on every input; proved to imply the "
          "theorems' hypotheses)",
          "integer genomic coordinates in the correspondence (all float values of the kernels are then exact "
          "integers); the theorems are about the model over Z",
          "tskit Tree API (edge(), nodes(), interval) as the independent oracle",
          "numba compiles the kernels as written (asserts included)"]

K8_SIG = "blocks:lone-edge"


# ---------------------------------------------------------------- implementation side
def impl_counts(ts, mask, size_biased):
    import tsdate.rescaling as rescaling
    with S.time_limit(30):
        if mask is None:
            stats, medge = rescaling.count_mutations(ts, size_biased=size_biased)
        else:
            stats, medge = rescaling.count_mutations(ts, node_is_sample=np.array(mask, dtype=bool),
                                                     size_biased=size_biased)
    return [float(x) for x in stats[:, 0]], [float(x) for x in stats[:, 1]], [int(x) for x in medge]


def impl_span_array(ts):
    import tsdate.util as util
    with S.time_limit(30):
        spans, medge = util.mutation_span_array(ts)
    return [float(x) for x in spans[:, 0]], [float(x) for x in spans[:, 1]], [int(x) for x in medge]


def impl_blocks(ts, unphased):
    """'assert' when the kernel's assertion fails"""
    import tsdate.phasing as phasing
    try:
        with S.time_limit(30):
            stats, bedges, mblock = phasing.block_singletons(ts, np.array(unphased, dtype=bool))
    except AssertionError:
        return "assert"
    except IndexError:
        return "index-error"
    return ([[float(a), float(b)] for a, b in stats], [[int(a), int(b)] for a, b in bedges],
            [int(x) for x in mblock])


# ---------------------------------------------------------------- model side
def coq_case(k, ts, mask, unphased, small):
    """(definitions, term) for case number k"""
    defs = (S.coq_table_defs(k, ts)
            + "Definition msk%d := %s.\nDefinition unph%d := %s.\nDefinition tmedge%d := %s.\n"
            % (k, S.coq_bools(mask), k, S.coq_bools(unphased) if unphased else "@nil bool",
               k, clist(S.ref_mutation_edges(ts), cZ) if ts.num_mutations else "@nil Z"))
    d = {"k": k, "nn": cnat(ts.num_nodes)}
    if small:
        ref = ("Some (map (ref_mutation_edge es%(k)d) muts%(k)d, "
               "map (ref_edge_count es%(k)d muts%(k)d) (edge_ids es%(k)d), "
               "map (ref_edge_count_sb es%(k)d %(nn)s (of_list false msk%(k)d) muts%(k)d) (edge_ids es%(k)d), "
               "map (ref_edge_span_sb es%(k)d %(nn)s (of_list false msk%(k)d)) (edge_ids es%(k)d), "
               "map (fun i => if nth i unph%(k)d false then ref_blocks es%(k)d (of_list (-1)%%Z nind%(k)d) muts%(k)d L%(k)d i else []) "
               "(seq 0%%nat (length unph%(k)d)))" % d)
    else:
        ref = "@None (list Z * list Z * list Z * list Z * list (list (Z * Z * list nat)))"
    term = ("(valid_tablesb L%(k)d es%(k)d ins%(k)d rem%(k)d, "
            "count_mutations_list es%(k)d L%(k)d false muts%(k)d smp%(k)d ins%(k)d rem%(k)d, "
            "count_mutations_list es%(k)d L%(k)d true muts%(k)d smp%(k)d ins%(k)d rem%(k)d, "
            "count_mutations_list es%(k)d L%(k)d false muts%(k)d msk%(k)d ins%(k)d rem%(k)d, "
            "count_mutations_list es%(k)d L%(k)d true muts%(k)d msk%(k)d ins%(k)d rem%(k)d, "
            "mutation_span_array es%(k)d tmedge%(k)d, "
            "block_singletons_list es%(k)d unph%(k)d nind%(k)d muts%(k)d L%(k)d ins%(k)d rem%(k)d, " % d) + ref + ")"
    return defs, term


def run_model(ctx, items):
    texts = [coq_case(k, *it) for k, it in enumerate(items)]
    return S.coq_run_cases(ctx, texts, ("lib.Tables", "model.Sweep", "model.BlockSingletons"), "tally")


def unopt(v):
    return None if v is None else v[1]


def same_nums(a, b):
    return len(a) == len(b) and all(float(x) == float(y) for x, y in zip(a, b))


def model_counts(v):
    """Some (emuts, espan, medge) -> three lists"""
    if v is None:
        return None
    em, sp, me = v[1]
    return list(em), list(sp), list(me)


def model_blocks(v):
    if v[0] == "inl":
        return {1: "assert"}.get(v[1], "model-error-%r" % (v[1],))
    stats, bedges, mblock = v[1]
    st = []
    for c, sp in stats:
        st.append([float(c), float("nan") if sp is None else float(sp[1])])
    return st, [[int(a), int(b)] for a, b in bedges], [int(x) for x in mblock]


def same_blocks(a, b):
    if isinstance(a, str) or isinstance(b, str):
        return a == b
    sa, ea, ma = a
    sb, eb, mb = b
    if ea != eb or ma != mb or len(sa) != len(sb):
        return False
    for (c1, s1), (c2, s2) in zip(sa, sb):
        if c1 != c2:
            return False
        if not (s1 == s2 or (s1 != s1 and s2 != s2)):
            return False
    return True


# ---------------------------------------------------------------- cases
def make_item(rng, jit=False):
    diploid = rng.random() < 0.55
    ts, kind = S.any_ts(rng, diploid=diploid, mutations=True, max_edges=90, stretch=0)
    if diploid and ts.num_individuals and rng.random() < 0.5:
        # singletons on the nodes of individuals
        nodes = [int(u) for ind in ts.individuals() for u in ind.nodes]
        if nodes:
            ts = S.add_mutations(rng, ts, k=rng.randint(1, 6), nodes=nodes)
    if ts.num_mutations and rng.random() < 0.25:
        ts = S.site_mutation_coincidence(rng, ts)      # num_sites == num_mutations, map not one-to-one
        kind += "+sites=muts"
    if rng.random() < 0.2:
        ts = S.stretch_coords(rng, ts)                 # chromosome-scale coordinates (above 2^24 .. 2^31)
        kind += "+stretch"
    n = ts.num_nodes
    r = rng.random()
    smp = S.is_sample_list(ts)
    if r < 0.35:
        mask = [rng.random() < 0.5 for _ in range(n)]
    elif r < 0.6:
        mask = [s and rng.random() < 0.7 for s in smp]
    elif r < 0.7:
        mask = [not s for s in smp]
    else:
        mask = list(smp)
    unphased = []
    for ind in ts.individuals():
        ok = len(ind.nodes) == 2 and all(ts.nodes_time[u] == 0 for u in ind.nodes)
        unphased.append(bool(ok and rng.random() < 0.75))
    # (inputs with an unphased individual id >= num_edges are ordinary cases in both tiers since
    # the repair of defect S1, f3f9c6a: individuals_block is sized by num_individuals)
    size = int(ts.sequence_length) * max(1, ts.num_edges) * (max(1, ts.num_edges) + ts.num_mutations + 1)
    return ts, mask, unphased, kind, size <= 150000


def oracle_counts(ctx, ts, mask, kind, got):
    """got: dict label -> (counts, spans, medge) from the implementation"""
    rp = {"tables": S.describe(ts), "mask": mask, "kind": kind}
    smp = S.is_sample_list(ts)
    for label, m, sb in (("plain", None, False), ("size_biased", None, True),
                         ("mask", mask, False), ("mask_size_biased", mask, True)):
        g = got.get(label)
        if g is None:
            continue
        want = S.ref_tallies(ts, mask=(m if m is not None else smp), size_biased=sb)
        if isinstance(g, str):
            ctx.oracle_fail("count_mutations:%s:%s" % (label, g), "count_mutations raised", rp)
            continue
        if list(g[2]) != list(want[2]):
            ctx.oracle_fail("count_mutations:%s:mutation_edge" % label,
                            "mutations_edge %r, trees say %r" % (g[2], want[2]), rp)
        elif not same_nums(g[0], want[0]):
            ctx.oracle_fail("count_mutations:%s:edge_counts" % label,
                            "edges_mutations %r, trees say %r" % (g[0], want[0]), rp)
        elif not same_nums(g[1], want[1]):
            ctx.oracle_fail("count_mutations:%s:edge_spans" % label,
                            "edges_span %r, trees say %r" % (g[1], want[1]), rp)
    if got.get("repeat_ok") is False:
        ctx.oracle_fail("count_mutations:repeat-call", "second call on the same objects (size_biased=np.bool_(True)) "
                        "differs from the first, or the caller's mask was modified", rp)
    g = got.get("span_array")
    if g is not None:
        want = S.ref_tallies(ts, mask=smp, size_biased=False)
        if list(g[2]) != list(want[2]) or not same_nums(g[0], want[0]) or not same_nums(g[1], want[1]):
            ctx.oracle_fail("mutation_span_array", "got %r, trees say %r" % (g, want), rp)


def oracle_blocks(ctx, ts, unphased, kind, got):
    rp = {"tables": S.describe(ts), "unphased": unphased, "kind": kind, "impl": got}
    spec = S.ref_blocks_spec(ts, unphased)
    k8 = S.ref_blocks_k8(ts, unphased)
    any_lone = any(v["lone"] for v in spec.values())
    if got == "index-error":
        oob = any(u and i >= ts.num_edges for i, u in enumerate(unphased))
        ctx.oracle_fail("blocks:index-error" + (":individual-id>=num_edges" if oob else ""),
                        "block_singletons raised IndexError on a valid input"
                        + (" (an unphased individual id >= num_edges: the repaired defect S1 is back)" if oob else ""), rp)
        return
    if got == "assert":
        unfl = sum(v["unflushed"] for v in k8.values())
        if any_lone and unfl > 0:
            ctx.oracle_fail(K8_SIG + ":assert", "block opened by a lone leaf branch is never flushed; the kernel asserts", rp)
        else:
            ctx.oracle_fail("blocks:assert", "block_singletons failed an assertion on an input without lone leaf branches", rp)
        return
    stats, bedges, mblock = got
    by_ind = S.impl_blocks_by_individual(ts, unphased, stats, bedges, mblock)
    if by_ind.get("stray"):
        ctx.oracle_fail("blocks:stray-mutation", "mutations %r of phased/absent individuals mapped to a block" % by_ind["stray"], rp)
    nrows_expected = sum(len(v["blocks"]) for v in spec.values())
    for i, want in spec.items():
        g = by_ind[i]
        ok = g["blocks"] == want["blocks"] and g["mut"] == want["mut"]
        if ok:
            continue
        if (want["lone"] or want["stray"]) and g["blocks"] == k8[i]["blocks"] and g["mut"] == k8[i]["mut"]:
            ctx.oracle_fail(K8_SIG + ":carried-singletons",
                            "individual %d: singletons seen while no block is open (one or both leaf branches absent) "
                            "are counted into a later block" % i, rp)
        else:
            what = "blocks" if g["blocks"] != want["blocks"] else "mutations_block"
            ctx.oracle_fail("blocks:%s" % what,
                            "individual %d: got %r, definition gives %r" % (i, g, want), rp)
    if not any_lone and not any(v["stray"] for v in spec.values()) and len(bedges) != nrows_expected:
        ctx.oracle_fail("blocks:row-count", "%d block rows, definition gives %d" % (len(bedges), nrows_expected), rp)


def run_impl(ts, mask, unphased):
    got = {}
    for label, m, sb in (("plain", None, False), ("size_biased", None, True),
                         ("mask", mask, False), ("mask_size_biased", mask, True)):
        try:
            got[label] = impl_counts(ts, m, sb)
        except AssertionError:
            got[label] = "assert"
    got["span_array"] = impl_span_array(ts)
    got["blocks"] = impl_blocks(ts, unphased)
    # same objects again, options as numpy scalars: identical results, caller's mask untouched
    import tsdate.rescaling as rescaling
    m = np.array(mask, dtype=bool)
    keep = m.copy()
    try:
        with S.time_limit(30):
            st, me = rescaling.count_mutations(ts, node_is_sample=m, size_biased=np.bool_(True))
        again = ([float(x) for x in st[:, 0]], [float(x) for x in st[:, 1]], [int(x) for x in me])
    except AssertionError:
        again = "assert"
    got["repeat_ok"] = bool(again == got["mask_size_biased"] and np.array_equal(m, keep)
                            and impl_blocks(ts, unphased) == got["blocks"])
    return got


def run(ctx, model_ok=True):
    import logging
    logging.disable(logging.WARNING)
    n = ctx.n(150, 1800)
    jit = ctx.tier != "quick"
    items = [make_item(ctx.rng, jit) for _ in range(n)]
    # corpus: the K8 input of DESIGN.md section 9
    items.insert(0, (k8_ts(), [True, True, False], [True], "corpus:K8", True))
    # corpus: the input of the repaired defect S1 (more individuals than edges)
    items.insert(1, (s1_ts(), [True] * 6 + [False], [False, False, True], "corpus:S1-fixed", True))
    gots = []
    for ts, mask, unphased, kind, small in items:
        try:
            gots.append(run_impl(ts, mask, unphased))
        except S.ImplTimeout as e:
            ctx.oracle_fail("timeout", str(e), {"tables": S.describe(ts), "kind": kind})
            gots.append(None)
    models = run_model(ctx, [(ts, mask, unphased, small) for ts, mask, unphased, kind, small in items]) if model_ok else None
    for i, (ts, mask, unphased, kind, small) in enumerate(items):
        got = gots[i]
        if got is None:
            continue
        oracle_counts(ctx, ts, mask, kind, got)
        oracle_blocks(ctx, ts, unphased, kind, got["blocks"])
        nblocks = 0 if isinstance(got["blocks"], str) else len(got["blocks"][1])
        ctx.case({"kind": kind, "summary": S.summary(ts), "edges": S.describe(ts)["edges"][:6],
                  "mutations": S.describe(ts)["mutations"][:6], "unphased": unphased, "blocks": nblocks},
                 nontrivial=ts.num_edges > 0 and ts.num_mutations > 0,
                 kind=kind.split("+")[0] + ("/blocks" if nblocks else "") + ("/" + got["blocks"] if isinstance(got["blocks"], str) else ""))
        if models is None:
            continue
        valid, m_plain, m_sb, m_mask, m_masksb, m_span, m_blocks, m_ref = models[i]
        rp = {"tables": S.describe(ts), "mask": mask, "unphased": unphased, "kind": kind}
        if not valid:
            ctx.tie_fail("correspondence", "valid_tablesb", "a tskit tree sequence violates the validity hypotheses", rp)
        for label, mv in (("plain", m_plain), ("size_biased", m_sb), ("mask", m_mask), ("mask_size_biased", m_masksb)):
            g = got[label]
            mc = model_counts(mv)
            ok = (not isinstance(g, str)) and mc is not None and same_nums(g[0], mc[0]) and same_nums(g[1], mc[1]) \
                and list(g[2]) == mc[2]
            ctx.corr("count_mutations[%s]" % label, ok, "impl=%r model=%r" % (g, mc), dict(rp, variant=label))
        g = got["span_array"]
        ctx.corr("mutation_span_array", same_nums(g[0], m_span[0]) and same_nums(g[1], m_span[1]),
                 "impl=%r model=%r" % (g, m_span), rp)
        mb = model_blocks(m_blocks)
        ctx.corr("block_singletons", same_blocks(got["blocks"], mb), "impl=%r model=%r" % (got["blocks"], mb), rp)
        if m_ref is not None:
            r_medge, r_cnt, r_cnt_sb, r_span_sb, r_blocks = m_ref[1]
            want = S.ref_tallies(ts, mask=mask, size_biased=True)
            wantp = S.ref_tallies(ts, mask=mask, size_biased=False)
            ok = (list(r_medge) == wantp[2] and same_nums(r_cnt, wantp[0]) and same_nums(r_cnt_sb, want[0])
                  and same_nums(r_span_sb, want[1]))
            # reference blocks (Coq, per integer position) vs the Tree-API definition
            spec = S.ref_blocks_spec(ts, unphased)
            for i_ind, rows in enumerate(r_blocks):
                wantb = spec.get(i_ind, {"blocks": {}})["blocks"]
                gotb = {frozenset(int(x) for x in p): (int(c), int(sp)) for (sp, c, p) in rows}
                ok = ok and gotb == wantb
            ctx.corr("reference semantics (Coq, no sweep) vs Tree API", ok,
                     "coq=%r tree=%r/%r" % (m_ref, wantp, want), rp)
            ctx.tally("coq_reference_semantics")


def k8_ts():
    """DESIGN.md section 9, K8: individual with nodes 0,1; node 1 isolated on [30,60);
    singletons on node 0 at 40, 45, 50 and on node 1 at 70"""
    import tskit
    t = tskit.TableCollection(100)
    t.individuals.add_row()
    t.nodes.add_row(flags=1, time=0, individual=0)
    t.nodes.add_row(flags=1, time=0, individual=0)
    t.nodes.add_row(flags=0, time=1)
    t.edges.add_row(0, 100, 2, 0)
    t.edges.add_row(0, 30, 2, 1)
    t.edges.add_row(60, 100, 2, 1)
    for x, u in ((40, 0), (45, 0), (50, 0), (70, 1)):
        s = t.sites.add_row(x, "0")
        t.mutations.add_row(site=s, node=u, derived_state="1")
    t.sort()
    t.build_index()
    t.compute_mutation_parents()
    return t.tree_sequence()


def s1_ts():
    """three diploid individuals, two edges, individual 2 unphased (id >= num_edges): raised
    IndexError before fix f3f9c6a"""
    import tskit
    t = tskit.TableCollection(10)
    for _ in range(3):
        t.individuals.add_row()
    for u in range(6):
        t.nodes.add_row(flags=1, time=0, individual=u // 2)
    t.nodes.add_row(flags=0, time=1)
    t.edges.add_row(0, 10, 6, 4)
    t.edges.add_row(0, 10, 6, 5)
    s = t.sites.add_row(3, "0")
    t.mutations.add_row(site=s, node=4, derived_state="1")
    t.sort()
    t.build_index()
    t.compute_mutation_parents()
    return t.tree_sequence()


def search(ctx):
    for _ in range(ctx.n(800, 4000)):
        ts, mask, unphased, kind, _small = make_item(ctx.rng, ctx.tier != "quick")
        try:
            got = run_impl(ts, mask, unphased)
        except S.ImplTimeout as e:
            ctx.oracle_fail("timeout", str(e), {"tables": S.describe(ts), "kind": kind})
            return
        oracle_counts(ctx, ts, mask, kind, got)
        oracle_blocks(ctx, ts, unphased, kind, got["blocks"])
        if ctx.oracle_fails:
            return


def replay(ctx, data):
    from vlib import gen
    case = data["case"]
    ts = gen.ts_from_dict(case["tables"])
    mask = case.get("mask") or S.is_sample_list(ts)
    unphased = case.get("unphased") or [False] * ts.num_individuals
    before = len(ctx.oracle_fails)
    got = run_impl(ts, mask, unphased)
    oracle_counts(ctx, ts, mask, "replay", got)
    oracle_blocks(ctx, ts, unphased, "replay", got["blocks"])
    return len(ctx.oracle_fails) == before
