"""C31 -- site-time estimates follow their documented definition.

 correspondence (bit for bit, binary64 PrimFloat model coq/model/SiteTime.v evaluated in Coq):
   * sites_time_from_ts  vs  sites_time FNum sqrt  on tree sequences x node_selection x min_time
     x unconstrained, with the (node, parent) pairs of the mutations taken from tskit;
   * nodes_time_unconstrained  vs  unconstrained_list  (incl. the ValueError when a non-sample
     node has no "mn" field);
   * add_sampledata_times  vs  sampledata_time  (tsinfer SampleData with historical individuals);
 oracle: independent definition-level recomputation with numpy on every implementation output,
   the argument checks (no sites, bad node_selection, wrong number of site times).
"""
import json
import math
import warnings

import numpy as np

from vlib import gen
from vlib.coqfmt import cfloat, cnat, clist, cbool

ENV_BY_TIER = {"quick": {"NUMBA_DISABLE_JIT": "1"}, "thorough": {"NUMBA_DISABLE_JIT": "1"}}

RULE = ("tree sequences: msprime (2-8 samples, 1-60 trees, finite-sites mutations so that sites carry several "
        "mutations, multiple mergers, historical samples) with extra sites without mutations, mutations above "
        "roots and on isolated samples after deleting intervals; node ages: the tree sequence times, times "
        "written by tsdate.date (inside_outside / variational_gamma, mn metadata), or synthetic JSON metadata "
        "with mn far from the node time (also on samples, and missing on one node); ~40% of the inputs with "
        "gen.exotic decorations (extra flag bits, all nodes renumbered so that samples are not ids 0..n-1, "
        "mutations above roots, mutation-free sites, unknown mutation times, arbitrary allele states, "
        "populations); x node_selection in "
        "{child,parent,arithmetic,geometric} x min_time in {0, 1e-9, 1, 3.5, 1e6, -1, default} x unconstrained; "
        "non-trivial = at least one site with >= 1 mutation; distinct by content hash")
ASSUME = ["tree.parent(node) at the site's position (tskit) supplies the parent of every mutation's node",
          "numpy's sqrt, + and / on float64 are IEEE-754 correctly rounded, as PrimFloat's are",
          "tsinfer.SampleData.min_site_times for the bound used by add_sampledata_times (recomputed "
          "independently from the genotypes in the oracle)"]
LEVEL = "proof"

SELS = {"child": "SelChild", "parent": "SelParent", "arithmetic": "SelArithmetic", "geometric": "SelGeometric"}
MIN_TIMES = [None, 0.0, 1e-9, 1.0, 3.5, 1e6, -1.0, 0.25]


# ------------------------------------------------------------------ inputs
def base_ts(rng):
    for _ in range(30):
        ts = _base_ts(rng)
        if ts.num_mutations <= 150 and ts.num_nodes <= 80:
            break
    # gen.exotic on ~40% of the inputs: extra flag bits, all nodes renumbered, mutations above roots,
    # mutation-free sites, unknown mutation times, arbitrary allele states, populations
    if rng.random() < 0.4:
        try:
            ts, _kinds = gen.exotic(rng, ts, p=0.35)
        except Exception:   # noqa: BLE001
            pass
    return ts


def _base_ts(rng):
    import msprime
    n = rng.randint(2, 8)
    L = rng.choice([5, 20, 50, 200])
    seed = rng.randrange(1, 2**31 - 1)
    hist = rng.random() < 0.3
    if hist and n > 2:
        k = rng.randint(1, n - 1)
        samples = [msprime.SampleSet(n - k, time=0, ploidy=1),
                   msprime.SampleSet(k, time=round(0.2 + rng.random() * 3, 3), ploidy=1)]
    else:
        samples = [msprime.SampleSet(n, time=0, ploidy=1)]
    model = None
    if rng.random() < 0.25:
        model = msprime.BetaCoalescent(alpha=1.1 + rng.random() * 0.8)
    ts = msprime.sim_ancestry(samples=samples, sequence_length=L, recombination_rate=rng.choice([0, 0.02, 0.1]),
                              random_seed=seed, population_size=1, model=model)
    # finite sites: several mutations per site, back mutations
    ts = msprime.sim_mutations(ts, rate=rng.choice([0.3, 1.0, 3.0, 8.0]) / L, random_seed=seed,
                               model=msprime.BinaryMutationModel() if rng.random() < 0.5 else None)
    return ts


def decorate(rng, ts):
    """extra empty sites, mutations above roots / on isolated nodes, deleted intervals"""
    import tskit
    if ts.sequence_length >= 20 and rng.random() < 0.35:
        a = rng.randint(1, int(ts.sequence_length) - 6)
        b = rng.randint(a + 1, min(a + 8, int(ts.sequence_length) - 1))
        ts = ts.delete_intervals([[a, b]], simplify=False)
    tables = ts.dump_tables()
    tables.mutations.time = np.full(tables.mutations.num_rows, tskit.UNKNOWN_TIME)
    used = set(tables.sites.position)
    free = [x for x in range(int(ts.sequence_length)) if float(x) not in used]
    rng.shuffle(free)
    k_empty = rng.randint(0, 3)
    for x in free[:k_empty]:
        tables.sites.add_row(float(x), "0")
    for x in free[k_empty:k_empty + rng.randint(0, 4)]:
        s = tables.sites.add_row(float(x), "0")
        tree = ts.at(float(x))
        r = rng.random()
        if r < 0.6 and tree.num_roots > 0:
            node = rng.choice(list(tree.roots))
        else:
            node = rng.randrange(ts.num_nodes)       # any node, possibly isolated at x
        tables.mutations.add_row(site=s, node=node, derived_state="1", time=tskit.UNKNOWN_TIME)
    tables.sort()
    tables.build_index()
    tables.compute_mutation_parents()
    return tables.tree_sequence()


def with_metadata(rng, ts, style):
    """node metadata carrying mn (and vr): synthetic JSON, as tsdate writes it"""
    import tskit
    tables = ts.dump_tables()
    if rng.random() < 0.5:
        tables.nodes.metadata_schema = tskit.MetadataSchema.permissive_json()
    else:
        tables.nodes.metadata_schema = tskit.MetadataSchema(None)
    md = []
    samples = set(int(s) for s in ts.samples())
    missing = rng.randrange(ts.num_nodes) if style == "missing" else None
    for u in range(ts.num_nodes):
        t = ts.nodes_time[u]
        mn = t * rng.choice([0.5, 1.0, 1.5, 3.0]) + rng.choice([0.0, 0.125, 2.0])
        if u in samples and rng.random() < 0.5:
            mn = t                                  # as tsdate writes for samples
        d = {"mn": float(mn), "vr": float(rng.random())}
        if u == missing:
            d = {"vr": 1.0} if rng.random() < 0.5 else {}
        if style == "badjson" and u == ts.num_nodes - 1:
            md.append(b"{not json")
        else:
            md.append(json.dumps(d).encode())
    tables.nodes.packset_metadata(md)
    return tables.tree_sequence()


def dated_ts(rng, ts):
    """really dated by tsdate (mn/vr written by the library)"""
    import tsdate
    if ts.num_mutations == 0 or not np.all(ts.nodes_time[ts.samples()] == 0):
        return None
    method = rng.choice(["inside_outside", "variational_gamma"])
    try:
        with warnings.catch_warnings():
            warnings.simplefilter("ignore")
            with np.errstate(all="ignore"):
                if method == "inside_outside":
                    return tsdate.date(ts, mutation_rate=0.1, method=method, population_size=1)
                return tsdate.date(ts, mutation_rate=0.1, method=method, max_iterations=2, rescaling_intervals=0)
    except Exception:   # noqa: BLE001 - dating failures are C35's business
        return None


# ------------------------------------------------------------------ model terms
def site_muts(ts):
    """per site: [(node, parent or None)] in the order tskit lists the site's mutations"""
    out = []
    for tree in ts.trees():
        for site in tree.sites():
            out.append((site.id, [(int(m.node), (None if tree.parent(m.node) == -1 else int(tree.parent(m.node))))
                                  for m in site.mutations]))
    out.sort()
    return [m for _i, m in out]


def c_sites(sites):
    return clist(sites, lambda ms: clist(ms, lambda m: "(%s, %s)" % (
        cnat(m[0]), "None" if m[1] is None else "(Some %s)" % cnat(m[1]))))


def model_sites_time(ctx, cases):
    out = []
    for i in range(0, len(cases), 120):
        chunk = cases[i:i + 120]
        terms = ["sites_time FNum PrimFloat.sqrt %s %s (nth_time FNum %s) %s" % (
            SELS[c["sel"]], cfloat(c["min_time"]), clist(c["times"], cfloat), c_sites(c["sites"])) for c in chunk]
        body = "Definition cases := %s.\nEval vm_compute in cases.\n" % ("[" + ";\n ".join(terms) + "]")
        res = ctx.coq_eval(body, requires=("lib.Num", "model.SiteTime"), tag="sitetime")
        for r in res[0]:
            if r is None:
                out.append(None)
            else:
                out.append([float("nan") if x is None else float(x[1]) for x in r[1]])
    return out


def same(a, b):
    if a is None or b is None:
        return a is None and b is None
    if len(a) != len(b):
        return False
    for x, y in zip(a, b):
        if math.isnan(x) and math.isnan(y):
            continue
        if x != y:
            return False
    return True


# ------------------------------------------------------------------ oracle: the documented definition
def reference(ts, nodes_time, sel, min_time):
    """max over the site's mutations of the documented node-age summary, raised to min_time;
    NaN without mutations.  Parents are read from the edge table, not from tskit trees."""
    out = np.full(ts.num_sites, np.nan)
    left, right, par, chi = ts.edges_left, ts.edges_right, ts.edges_parent, ts.edges_child
    by_child = {}
    for e in range(ts.num_edges):
        by_child.setdefault(int(chi[e]), []).append(e)
    for site in ts.sites():
        x = site.position
        ages = []
        for m in site.mutations:
            p = -1
            for e in by_child.get(int(m.node), ()):
                if left[e] <= x < right[e]:
                    p = int(par[e])
                    break
            c = nodes_time[m.node]
            if sel == "child" or p == -1:
                ages.append(c)
            elif sel == "parent":
                ages.append(nodes_time[p])
            elif sel == "arithmetic":
                ages.append((c + nodes_time[p]) / 2)
            else:
                ages.append(np.sqrt(c * nodes_time[p]))
        if ages:
            out[site.id] = max(max(ages), min_time)
    return [float(x) for x in out]


def call_sites_time(ts, **kw):
    import tsdate
    try:
        with warnings.catch_warnings():
            warnings.simplefilter("ignore")
            return [float(x) for x in tsdate.sites_time_from_ts(ts, **kw)]
    except Exception as e:   # noqa: BLE001
        return "%s: %s" % (type(e).__name__, str(e)[:80])


def expect_value_error(ctx, r, sig, what, rp):
    """r is the outcome of a call that must raise ValueError"""
    if isinstance(r, str) and r.startswith("ValueError"):
        return
    if isinstance(r, str):
        ctx.oracle_fail("%s|wrong-exception|%s" % (sig, r[:60]), "%s raised %s instead of ValueError" % (what, r), rp)
    else:
        ctx.oracle_fail("%s|accepted" % sig, "%s returned %r" % (what, r[:5]), rp)


def run_sites_time(ctx, n, model_ok):
    import tsdate
    cases = []
    for i in range(n):
        ts = decorate(ctx.rng, base_ts(ctx.rng))
        src = ctx.rng.choice(["plain", "plain", "synthetic", "synthetic", "dated", "missing", "badjson"])
        if src == "dated":
            d = dated_ts(ctx.rng, ts)
            if d is None:
                src = "synthetic"
            else:
                ts = d
        if src in ("synthetic", "missing", "badjson"):
            ts = with_metadata(ctx.rng, ts, src)
        sel = ctx.rng.choice(list(SELS))
        mt = ctx.rng.choice(MIN_TIMES)
        uncon = {"plain": ctx.rng.random() < 0.15, "synthetic": ctx.rng.random() < 0.8, "dated": ctx.rng.random() < 0.8,
                 "missing": True, "badjson": True}[src]
        kw = {"node_selection": sel, "unconstrained": uncon}
        if mt is not None:
            kw["min_time"] = mt
        if ctx.rng.random() < 0.1:
            kw.pop("unconstrained")
            uncon = True           # the default
        impl = call_sites_time(ts, **kw)
        # the node ages the definition is about
        is_sample = [bool(f & 1) for f in ts.nodes_flags]
        mns = []
        for u in range(ts.num_nodes):
            try:
                md = ts.node(u).metadata
                if isinstance(md, bytes):
                    md = json.loads(md.decode()) if md else {}
                mns.append(float(md["mn"]) if "mn" in md else None)
            except Exception:   # noqa: BLE001
                mns.append(None)
        if uncon:
            if any(m is None and not s for m, s in zip(mns, is_sample)):
                times = None
            else:
                times = [float(ts.nodes_time[u]) if is_sample[u] else mns[u] for u in range(ts.num_nodes)]
        else:
            times = [float(x) for x in ts.nodes_time]
        cases.append({"ts": ts, "sel": sel, "min_time": 1.0 if mt is None else float(mt), "uncon": uncon, "src": src,
                      "times": times, "sites": site_muts(ts), "impl": impl, "kw": kw,
                      "is_sample": is_sample, "mns": mns})
    evalable = [c for c in cases if c["times"] is not None]
    model = model_sites_time(ctx, evalable) if model_ok else [None] * len(evalable)
    mi = iter(model)
    for c in cases:
        ts = c["ts"]
        nmut_sites = sum(1 for s in c["sites"] if s)
        desc = {"nodes": int(ts.num_nodes), "sites": int(ts.num_sites), "sites_with_mutations": nmut_sites,
                "max_mutations_per_site": max([len(s) for s in c["sites"]] + [0]), "source": c["src"],
                "kw": {k: v for k, v in c["kw"].items()}}
        ctx.case(desc, nontrivial=nmut_sites > 0, kind="%s/%s/%s" % (c["src"], c["sel"], "uncon" if c["uncon"] else "con"))
        rp = {"kind": "sites_time", "ts": gen.ts_tables_dict(ts), "kw": c["kw"], "times": c["times"],
              "is_sample": c["is_sample"], "mns": c["mns"], "impl": c["impl"]}
        if c["times"] is None:
            # a non-sample node without mn: the function must raise ValueError
            expect_value_error(ctx, c["impl"], "missing-mn", "unconstrained=True on a tree sequence with a non-sample "
                               "node without mn metadata", rp)
            continue
        m = next(mi)
        if ts.num_sites == 0:
            # no sites: the documented ValueError; the model answers None
            expect_value_error(ctx, c["impl"], "no-sites", "a tree sequence without sites", rp)
            if model_ok:
                ctx.corr("sites_time_from_ts", m is None and isinstance(c["impl"], str),
                         "no sites: model %r, implementation %r" % (m, c["impl"]), replay=rp)
            continue
        if isinstance(c["impl"], str):
            ctx.oracle_fail("unexpected-error|" + c["impl"][:40], "sites_time_from_ts(%r) raised %s" % (c["kw"], c["impl"]), rp)
            continue
        if m is not None or not model_ok:
            if model_ok:
                ctx.corr("sites_time_from_ts", same(m, c["impl"]), "kw %r: model %r, implementation %r" % (
                    c["kw"], m[:8], c["impl"][:8]), replay=dict(rp, model=m))
        ref = reference(ts, np.array(c["times"]), c["sel"], c["min_time"])
        if not same(ref, c["impl"]):
            bad = [i for i, (a, b) in enumerate(zip(ref, c["impl"])) if not same([a], [b])]
            ctx.oracle_fail("definition|%s|%s" % (c["sel"], "uncon" if c["uncon"] else "con"),
                            "site %d (mutations %r): sites_time_from_ts(%r) gives %r, the definition %r" % (
                                bad[0], c["sites"][bad[0]], c["kw"], c["impl"][bad[0]], ref[bad[0]]), rp)


def run_unconstrained(ctx, n, model_ok):
    """nodes_time_unconstrained vs unconstrained_list"""
    import tsdate
    cases = []
    for _ in range(n):
        ts = base_ts(ctx.rng)
        style = ctx.rng.choice(["synthetic", "synthetic", "missing", "nometa"])
        if style != "nometa":
            ts = with_metadata(ctx.rng, ts, style)
        is_sample = [bool(f & 1) for f in ts.nodes_flags]
        mns = []
        for u in range(ts.num_nodes):
            md = ts.node(u).metadata
            try:
                if isinstance(md, bytes):
                    md = json.loads(md.decode()) if md else {}
                mns.append(float(md["mn"]) if "mn" in md else None)
            except Exception:   # noqa: BLE001
                mns.append(None)
        try:
            impl = [float(x) for x in tsdate.util.nodes_time_unconstrained(ts)]
        except ValueError:
            impl = None
        cases.append({"times": [float(x) for x in ts.nodes_time], "is_sample": is_sample, "mns": mns, "impl": impl,
                      "style": style})
    if model_ok:
        terms = ["unconstrained_list FNum %s %s %s" % (
            clist(c["times"], cfloat), clist(c["is_sample"], cbool),
            clist(c["mns"], lambda m: "None" if m is None else "(Some %s)" % cfloat(m))) for c in cases]
        res = ctx.coq_eval("Definition cases := %s.\nEval vm_compute in cases.\n" % ("[" + ";\n ".join(terms) + "]"),
                           requires=("lib.Num", "model.SiteTime"), tag="uncon")[0]
    for i, c in enumerate(cases):
        ctx.case({"nodes": len(c["times"]), "style": c["style"], "fails": c["impl"] is None}, nontrivial=True,
                 kind="unconstrained/" + c["style"])
        want = None
        if not any(m is None and not s for m, s in zip(c["mns"], c["is_sample"])):
            want = [t if s else m for t, s, m in zip(c["times"], c["is_sample"], c["mns"])]
        if not same(want, c["impl"]):
            ctx.oracle_fail("unconstrained-source", "nodes_time_unconstrained gives %r, expected %r (times %r, samples %r, mn %r)" % (
                c["impl"], want, c["times"], c["is_sample"], c["mns"]), {"kind": "unconstrained", **{k: c[k] for k in ("times", "is_sample", "mns", "impl")}})
        if model_ok:
            r = res[i]
            m = None if r is None else [float(x) for x in r[1]]
            ctx.corr("nodes_time_unconstrained", same(m, c["impl"]), "model %r implementation %r" % (m, c["impl"]),
                     replay={"kind": "unconstrained", **{k: c[k] for k in ("times", "is_sample", "mns", "impl")}})


def run_sampledata(ctx, n, model_ok):
    import msprime
    import tsinfer
    import tsdate
    cases = []
    for _ in range(n):
        rng = ctx.rng
        nmod = rng.randint(2, 4)
        nanc = rng.randint(1, 3)
        t_old = [round(0.3 + rng.random() * 4, 3) for _ in range(rng.randint(1, 2))]
        samples = [msprime.SampleSet(nmod, time=0, ploidy=1)] + [msprime.SampleSet(nanc, time=t, ploidy=1) for t in t_old]
        seed = rng.randrange(1, 2**31 - 1)
        ts = msprime.sim_ancestry(samples=samples, sequence_length=40, recombination_rate=0.02, random_seed=seed,
                                  population_size=1)
        ts = msprime.sim_mutations(ts, rate=0.15, random_seed=seed, model=msprime.BinaryMutationModel())
        if ts.num_sites == 0:
            continue
        with warnings.catch_warnings():
            warnings.simplefilter("ignore")
            sd = tsinfer.SampleData.from_tree_sequence(ts, use_individuals_time=True, use_sites_time=True)
        est = [float(x) for x in tsdate.sites_time_from_ts(ts, unconstrained=False, node_selection=rng.choice(list(SELS)),
                                                           min_time=rng.choice([0.0, 1.0, 2.5]))]
        # estimates below / above the bounds, and NaN for some sites
        est = [e * rng.choice([0.1, 1.0, 1.0, 10.0]) for e in est]
        if rng.random() < 0.5:
            est[rng.randrange(len(est))] = float("nan")
        try:
            with warnings.catch_warnings():
                warnings.simplefilter("ignore")
                out = [float(x) for x in tsdate.add_sampledata_times(sd, np.array(est)).sites_time[:]]
        except Exception as e:   # noqa: BLE001
            out = "%s: %s" % (type(e).__name__, str(e)[:80])
        # independent bound: oldest historical individual carrying a derived allele
        ind_time = ts.nodes_time[ts.samples()]
        bound = []
        for v in ts.variants():
            g = v.genotypes
            derived = (g > 0) & (ind_time > 0)
            bound.append(float(np.max(ind_time[derived])) if np.any(derived) else 0.0)
        cases.append({"est": est, "bound": bound, "out": out, "ts": ts})
        # wrong number of site times must be rejected
        try:
            tsdate.add_sampledata_times(sd, np.array(est + [1.0]))
            ctx.oracle_fail("sampledata-length-accepted", "site-time vector of the wrong length accepted", None)
        except ValueError:
            pass
    if model_ok and cases:
        terms = ["map (fun eb => sampledata_time FNum (fst eb) (snd eb)) %s" % clist(
            zip(c["est"], c["bound"]), lambda eb: "(%s, %s)" % ("None" if math.isnan(eb[0]) else "(Some %s)" % cfloat(eb[0]), cfloat(eb[1])))
            for c in cases]
        res = ctx.coq_eval("Definition cases := %s.\nEval vm_compute in cases.\n" % ("[" + ";\n ".join(terms) + "]"),
                           requires=("lib.Num", "model.SiteTime"), tag="sampledata")[0]
    for i, c in enumerate(cases):
        ctx.case({"sites": len(c["est"]), "bounded": sum(1 for b in c["bound"] if b > 0)}, nontrivial=any(b > 0 for b in c["bound"]),
                 kind="sampledata")
        rp = {"kind": "sampledata", "est": c["est"], "bound": c["bound"], "out": c["out"], "ts": gen.ts_tables_dict(c["ts"])}
        if isinstance(c["out"], str):
            ctx.oracle_fail("sampledata-error|" + c["out"][:40], "add_sampledata_times raised " + c["out"], rp)
            continue
        want = [float("nan") if math.isnan(e) else max(e, b) for e, b in zip(c["est"], c["bound"])]
        if not same(want, c["out"]):
            ctx.oracle_fail("sampledata-max", "add_sampledata_times gives %r, the larger of estimate %r and oldest derived "
                            "historical sample %r is %r" % (c["out"][:8], c["est"][:8], c["bound"][:8], want[:8]), rp)
        if model_ok:
            m = [float("nan") if x is None else float(x[1]) for x in res[i]]
            ctx.corr("add_sampledata_times", same(m, c["out"]), "model %r implementation %r" % (m[:8], c["out"][:8]), replay=rp)


def argument_checks(ctx):
    import msprime
    import tsdate
    ts = msprime.sim_ancestry(3, ploidy=1, sequence_length=10, random_seed=3)
    r = call_sites_time(ts, unconstrained=False)
    expect_value_error(ctx, r, "no-sites", "a tree sequence without sites", None)
    ts = msprime.sim_mutations(ts, rate=0.2, random_seed=3)
    for bad in ["Child", "mean", "", "sibling"]:
        r = call_sites_time(ts, unconstrained=False, node_selection=bad)
        expect_value_error(ctx, r, "bad-selection", "node_selection=%r" % bad, None)
    r = call_sites_time(ts)      # unconstrained=True on an undated tree sequence
    expect_value_error(ctx, r, "missing-mn", "unconstrained=True (the default) on an undated tree sequence", None)
    ctx.case({"argument_checks": 6}, nontrivial=True, kind="argument-checks")


def run(ctx, model_ok=True):
    argument_checks(ctx)
    run_sites_time(ctx, ctx.n(220, 1200), model_ok)
    run_unconstrained(ctx, ctx.n(40, 200), model_ok)
    run_sampledata(ctx, ctx.n(12, 80), model_ok)


def search(ctx):
    run_sites_time(ctx, ctx.n(500, 3000), False)


def replay(ctx, data):
    rp = data.get("case") or {}
    if rp.get("kind") != "sites_time":
        print(json.dumps(rp, indent=1)[:3000])
        return True
    import tsdate
    ts = gen.ts_from_dict(rp["ts"])
    kw = dict(rp["kw"])
    times = np.array(rp["times"])
    # the replay tables carry no metadata: hand the recorded unconstrained ages to the library
    orig = tsdate.util.nodes_time_unconstrained
    tsdate.util.nodes_time_unconstrained = lambda _ts: times
    try:
        impl = call_sites_time(ts, **kw)
    finally:
        tsdate.util.nodes_time_unconstrained = orig
    ref = reference(ts, times, kw.get("node_selection", "child"), kw.get("min_time", 1))
    return not isinstance(impl, str) and same(ref, impl)
