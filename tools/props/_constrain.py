"""Shared by C01 / C03 / C27: cases for util._constrain_ages, the bit-exact
correspondence with coq/model/Constrain.v (PrimFloat instance, vm_compute) and the
double-precision reference of the least fixed point."""
import math
import numpy as np
from vlib import gen
from vlib.coqfmt import cfloat, cnat, cbool, clist, cpair

EPS_CHOICES = [1e-8, 1e-6, 1e-3, 0.1, 1.0, 0.0]
ITER_CHOICES = [0, 0, 0, 1, 2, 5, 100]


def make_case(rng, ts=None, style=None, eps=None, k=None):
    if ts is None:
        if rng.random() < 0.5:
            # least-squares-focused: iterations on, samples above/below free nodes, inversions
            ts = gen.sim_ts(rng, historical=rng.random() < 0.6)
            if rng.random() < 0.6:
                ts = gen.internal_samples(rng, ts, k=rng.randint(1, 3))
            k = k if k is not None else rng.choice([1, 2, 3, 5, 100])
            style = style or rng.choice(["noise", "reverse", "ties", "noise"])
        else:
            ts = gen.sim_ts(rng)
            if rng.random() < 0.3:
                ts = gen.internal_samples(rng, ts, k=rng.randint(1, 2))
    if rng.random() < 0.3:
        ts = gen.extra_flags(rng, ts)   # flag bits beyond NODE_IS_SAMPLE must not matter
    t, style = gen.random_times(rng, ts, style)
    import tskit
    fixed = [bool(f & tskit.NODE_IS_SAMPLE) for f in ts.nodes_flags]
    _TS[id(ts)] = ts
    return {
        "ts_id": id(ts),
        "t": [float(x) for x in t],
        "fixed": fixed,
        "parent": [int(x) for x in ts.edges_parent],
        "child": [int(x) for x in ts.edges_child],
        "eps": eps if eps is not None else rng.choice(EPS_CHOICES),
        "k": k if k is not None else rng.choice(ITER_CHOICES),
        "style": style,
    }


_TS = {}   # live tree sequences of this run's cases (replayed cases call the kernel directly)


def run_impl(case):
    """the public util.constrain_ages(ts, ...) when the case's tree sequence is alive (it derives
    the fixed mask and edge arrays from ts), else the kernel called exactly as that wrapper does;
    'assert' when it asserts"""
    import tsdate.util as util
    ts = _TS.get(case.get("ts_id"))
    if ts is not None and ts.num_nodes == len(case["t"]):
        try:
            out = util.constrain_ages(ts, np.array(case["t"], dtype=np.float64), float(case["eps"]), int(case["k"]))
            return [float(x) for x in out]
        except AssertionError:
            return "assert"
    try:
        out = util._constrain_ages(
            np.array(case["t"], dtype=np.float64), np.array(case["fixed"], dtype=bool),
            np.array(case["parent"], dtype=np.int32), np.array(case["child"], dtype=np.int32),
            float(case["eps"]), int(case["k"]))
        return [float(x) for x in out]
    except AssertionError:
        return "assert"


def coq_term(case):
    es = clist(zip(case["parent"], case["child"]), lambda pc: cpair(cnat(pc[0]), cnat(pc[1])))
    return "(children_firstb %s, constrain_list FNum %s %s %s %s %s)" % (
        es, cfloat(case["eps"]), clist(case["fixed"], cbool), cnat(case["k"]), es,
        clist(case["t"], cfloat))


def run_model(ctx, cases):
    body = "Definition cases := %s.\nEval vm_compute in cases.\n" % clist([coq_term(c) for c in cases])
    res = ctx.coq_eval(body, requires=("lib.Num", "model.Constrain", "proofs.ConstrainForced"), tag="constrain")
    out = []
    for cf, r in res[0]:
        if r is None:
            out.append((cf, "assert"))
        else:
            out.append((cf, [float(x) for x in r[1]]))
    return out


def same_floats(a, b):
    if isinstance(a, str) or isinstance(b, str):
        return a == b
    if len(a) != len(b):
        return False
    for x, y in zip(a, b):
        if math.isnan(x) and math.isnan(y):
            continue
        if x != y:
            return False
    return True


def children_first(case):
    seen_child = set()
    for p, c in zip(case["parent"], case["child"]):
        if p == c or p in seen_child:
            return False
        seen_child.add(c)
    return True


def lfp_reference(case):
    """least vector >= t with fl(t'[c] + eps) <= t'[p] on every edge, computed by the
    definition (children before parents), independent of the edge-table order"""
    t = list(case["t"])
    n = len(t)
    kids = {}
    for p, c in zip(case["parent"], case["child"]):
        kids.setdefault(p, []).append(c)
    done = {}

    def val(u, depth=0):
        if u in done:
            return done[u]
        v = t[u]
        for c in kids.get(u, []):
            w = val(c, depth + 1) + case["eps"]
            # the kernel assigns when  t[c]+eps >= t[p]
            if w >= v:
                v = w
        done[u] = v
        return v
    import sys
    sys.setrecursionlimit(10000)
    return [val(u) for u in range(n)]


def correspondence(ctx, cases, label="constrain_ages"):
    """implementation vs extracted-by-evaluation model, bit for bit; returns impl outputs"""
    impl = [run_impl(c) for c in cases]
    model = run_model(ctx, cases)
    for i, (c, a, (cf, b)) in enumerate(zip(cases, impl, model)):
        ctx.corr(label, same_floats(a, b),
                 "impl=%r model=%r" % (a, b), replay={"case": c, "impl": a, "model": b})
        if not cf:
            ctx.tie_fail("correspondence", "children_first",
                         "edge order of a valid tree sequence violates the hypothesis children_first",
                         replay={"case": c})
    return impl
