"""C10 -- inside-outside is exact on a single tree."""
import math
import numpy as np
from props import _discrete as D

ENV_BY_TIER = {"quick": {"NUMBA_DISABLE_JIT": "1"}, "thorough": {}}
ENV = {"XDG_CACHE_HOME": "/verif/.work/disc/cache"}
COQ_REQ = ("lib.Num", "model.Discrete", "model.DiscreteFloat")
TOL = 1e-9   # posterior entries (absolute) and likelihood (relative); measured <= 3e-15, see evidence notes

RULE = ("single trees: EVERY rooted shape with 2-5 leaves (20 shapes, polytomies included) x per-edge mutation "
        "counts drawn from {0,0,1,1,2,3} x prior grids of 2-6 timepoints (5 fixed + random spacing) with random "
        "positive rows, prior 0 at time 0 in 60% of the cases and a few interior zeros x sequence lengths 1/10/1000 "
        "x eps in {1e-8,1e-6,1e-3,0.1} or (30%) {0.1,0.3,1,3} x the median grid spacing x both probability spaces x outside_standardize on/off x cached/uncached "
        "g_i x random renumbering of the internal nodes; plus msprime single-tree inputs with up to 6 leaves. "
        "A case is non-trivial when the tree has >= 2 internal nodes and >= 1 mutation; distinct by content hash."
        "About half of the inputs carry 1-3 extra mutations that sit on NO edge (above the root of the local tree; valid tskit input); the references count only mutations on edges, computed from the tables.")
ASSUME = ["scipy.stats.poisson.pmf/logpmf values enter the model as a lookup table (not modelled); the brute-force "
          "oracle calls scipy's pmf itself",
          "exp/log/pow of the binary64 model instance are float implementations (coq/model/DiscreteFloat.v), so "
          "model and implementation are compared at 1e-9 relative, not bit for bit",
          "edge orders are taken from the implementation and checked against the order hypotheses of the theorems"]


def gen_cases(ctx, reps, n_sim):
    rng = ctx.rng
    cases = []
    shapes = [s for k in range(2, 6) for s in D.tree_shapes(k)]
    for _rep in range(reps):
        for shape in shapes:
            d = D.shape_to_tables(shape, rng, L=rng.choice([1.0, 10.0, 1000.0]))
            d = D.canon(D.add_mutations(d, [rng.choice([0, 0, 1, 1, 2, 3]) for _ in d["edges"]], rng))
            if rng.random() < 0.5:
                d, _ = D.renumber(d, rng)
            unary = False
            if sum(1 for f in d["nodes_flags"] if not f) <= 3 and rng.random() < 0.3:
                d = D.add_unary(d, rng, k=rng.randint(1, 2))      # nodes with a single child
                unary = True
            cases.append(D.make_case(rng, d, kind="shape" + ("+unary" if unary else ""),
                                     **D.random_options(rng, ctx.tier == "thorough")))
    # extreme evidence, logarithmic space only: an undiverged clade next to a heavily mutated lineage, so that
    # inside + outside of some node is below log(5e-324) at EVERY gridpoint (the weights are far outside the double
    # range, the posterior is still exact); reference: the same enumeration carried out in log space
    for _ in range(ctx.n(10, 40)):
        shape = rng.choice([((), ((), ())), (((), ()), ((), ())), ((), ((), ()), ())])
        d = D.shape_to_tables(shape, rng, L=1.0)
        root = len(d["nodes_time"]) - 1
        counts = [(rng.randint(500, 2000) if (p == root and d["nodes_flags"][c] and k == first_root_sample(d, root)) else 0)
                  for k, (_l, _r, p, c) in enumerate(d["edges"])]
        d = D.canon(D.add_mutations(d, counts, rng))
        # a grid with very fine steps near 0 (where the undiverged clade wants to be) and coarse ones further up
        # (where the mutated lineage pulls the root): inside and outside then peak at different gridpoints
        sc = rng.choice([0.5, 1.0, 2.0])
        xgrid = [round(sc * x, 8) for x in [0.0, 1e-4, 1e-3, 1e-2, 0.05, 0.2, 0.5, 1.0, 2.0, 4.0]]
        if rng.random() < 0.5:
            xgrid = [x for k, x in enumerate(xgrid) if k in (0, 1, 3, 5, 6, 7, 8, 9)]
        c = D.make_case(rng, d, kind="extreme", space=D.LOG, mu=float(rng.choice([1000, 1000, 3000])), grid=xgrid,
                        eps=rng.choice([1e-6, 1e-8, 1e-3]), offedge=0, exotic=False, ties=False, extreme=True,
                        **D.random_options(rng, ctx.tier == "thorough"))
        c["out_std"] = True              # the API default; the separate standardisation of inside and outside is what
                                         # puts their sum below the double range
        for u in c["prior"]:
            c["prior"][u][0] = 0.0       # no prior mass at time 0 for a non-sample node (as in every prior tsdate builds)
        cases.append(c)
    # heavy evidence, LINEAR space: every edge carries 150-450 mutations (beyond 170!, where a factorial leaves the
    # double range although the Poisson mass itself is of order 1e-2); rate and grid chosen so that expected counts
    # at the grid spacings are of the same order as the counts and the exact weights stay well inside the doubles
    for _ in range(ctx.n(6, 24)):
        shape = rng.choice([((), ((), ())), ((), ())])
        d = D.shape_to_tables(shape, rng, L=1.0)
        d = D.canon(D.add_mutations(d, [rng.randint(150, 450) for _ in d["edges"]], rng))
        sc = rng.choice([0.5, 1.0, 2.0])
        c = D.make_case(rng, d, kind="heavy-linear", space=D.LIN, mu=float(rng.choice([150, 200, 300])) / sc,
                        grid=[round(sc * x, 8) for x in [0.0, 0.5, 1.0, 1.5, 2.0, 3.0, 4.0]],
                        eps=rng.choice([1e-6, 1e-8]), offedge=0, exotic=False, ties=False,
                        **D.random_options(rng, ctx.tier == "thorough"))
        for u in c["prior"]:
            c["prior"][u][0] = 0.0
        cases.append(c)
    for _ in range(n_sim):
        d = D.sim_dict(rng, n=rng.randint(2, 6), trees="single")
        if not D.is_single_tree(d):
            continue
        if rng.random() < 0.5:
            d, _ = D.renumber(d, rng)
        cases.append(D.make_case(rng, d, kind="msprime", grid=D.random_grid(rng, gmax=5),
                                 **D.random_options(rng, ctx.tier == "thorough")))
    return cases


def first_root_sample(d, root):
    """index of the first edge from the root to a sample"""
    for k, (_l, _r, p, c) in enumerate(d["edges"]):
        if p == root and d["nodes_flags"][c]:
            return k
    return -1


def api_run(case):
    import tsdate
    ts = D.ts_from_dict(case["ts"])
    pr = D.make_priors(case, ts)
    _new, fit, lik = tsdate.inside_outside(
        ts, mutation_rate=D.opt(case, "mu", case["mu"]), priors=pr, eps=D.opt(case, "eps", case["eps"]),
        probability_space=case["space"], num_threads=case.get("num_threads"),
        outside_standardize=D.opt(case, "out_std", bool(case.get("out_std", True))),
        cache_inside=D.opt(case, "cache", bool(case.get("cache_inside"))),
        return_fit=True, return_likelihood=True, record_provenance=False)
    post = fit.node_posteriors()
    post = [[float(row[k]) for k in post.dtype.names] for row in post]
    return post, float(lik)


def oracle_case(ctx, case, stats):
    rp = {"case": case}
    try:
        post, lik = api_run(case)
    except Exception as e:
        ctx.oracle_fail("exception:" + type(e).__name__, "inside_outside raised %r on a valid single-tree input" % (e,), rp)
        return
    if case.get("extreme"):
        want, logZ = D.brute_force_log(case)
        Z = None
    else:
        want, Z = D.brute_force(case)
    worst = 0.0
    for u, row in want.items():
        for x, y in zip(post[u], row):
            dlt = abs(x - y) if not math.isnan(x) else math.inf
            worst = max(worst, dlt)
    if not worst <= TOL:
        ctx.oracle_fail("posterior", "posterior differs from the brute-force marginal by %.3g" % worst,
                        dict(rp, impl={u: post[u] for u in want}, expected=want))
    if Z is None:
        dl = abs(lik - logZ) / (1.0 + abs(logZ))
    elif case["space"] == D.LIN:
        dl = abs(lik - Z) / Z
    else:
        dl = abs(lik - math.log(Z)) / (1.0 + abs(math.log(Z)))
    if not dl <= TOL:
        ctx.oracle_fail("likelihood", "returned likelihood %r, exact normalising constant %r (%s space)" % (
            lik, Z, case["space"]), dict(rp, impl=lik, expected=Z))
    stats["post"] = max(stats.get("post", 0.0), worst)
    stats["lik"] = max(stats.get("lik", 0.0), dl)


def run(ctx, model_ok=True):
    cases = gen_cases(ctx, ctx.n(2, 12), ctx.n(15, 100))
    stats = {}
    for c in cases:
        d = c["ts"]
        ctx.case(D.summary(c), nontrivial=len(c["nonfixed_order"]) >= 2 and len(d["mutations"]) >= 1,
                 kind=c["space"] + "/" + c["kind"] + ("/polytomy" if any(
                     sum(1 for e in d["edges"] if e[2] == p) > 2 for p in set(e[2] for e in d["edges"])) else "/binary"))
        oracle_case(ctx, c, stats)
    ctx.notes["max_posterior_abs_error_vs_brute_force"] = stats.get("post")
    ctx.notes["max_likelihood_rel_error_vs_brute_force"] = stats.get("lik")
    ctx.notes["tolerance"] = TOL
    if model_ok:
        res = []
        for c in cases:
            try:
                res.append(D.run_io_impl(c))
            except Exception:
                res.append(None)   # reported by the oracle above
        D.io_correspondence(ctx, cases, res, COQ_REQ)


def search(ctx):
    stats = {}
    for c in gen_cases(ctx, ctx.n(10, 40), ctx.n(100, 400)):
        oracle_case(ctx, c, stats)
        if ctx.oracle_fails:
            return


def replay(ctx, data):
    case = data["case"]["case"]
    before = len(ctx.oracle_fails)
    oracle_case(ctx, case, {})
    return len(ctx.oracle_fails) == before
