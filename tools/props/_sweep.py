"""Shared by C30 / C24 / C29 / C22 (the edge-diff sweep kernels): tree-sequence generators
with integer coordinates (msprime based and msprime-free random DAGs; gaps, missing data,
polytomies, unary stretches, historical and internal samples, diploid individuals, mutations
above roots / on isolated nodes / several per site), formatting of tables as Coq terms for
lib/Tables.v, and reference tallies through the tskit Tree API."""
import contextlib
import signal

import numpy as np

from vlib import gen
from vlib.coqfmt import cZ, cnat, cbool, clist, cpair


# ------------------------------------------------------------------ guards
class ImplTimeout(Exception):
    pass


@contextlib.contextmanager
def time_limit(seconds):
    """abort a call of the implementation that does not return (a mutated sweep can spin);
    effective for the pure-Python tier, harmless under the JIT"""
    def handler(signum, frame):
        raise ImplTimeout("implementation call exceeded %ds" % seconds)
    old = signal.signal(signal.SIGALRM, handler)
    signal.alarm(seconds)
    try:
        yield
    finally:
        signal.alarm(0)
        signal.signal(signal.SIGALRM, old)


# ------------------------------------------------------------------ generators
def _finish(tables):
    tables.sort()
    tables.build_index()
    tables.compute_mutation_parents()
    return tables.tree_sequence()


def random_dag_ts(rng, n_samples=None, n_internal=None, L=None, diploid=False,
                  internal_samples=False, historical=False, p_parent=None):
    """msprime-free: per interval, every node independently picks a parent among the strictly
    older nodes (or none).  Gives unary nodes, polytomies, isolated samples, several roots,
    childless internal nodes, nodes with many disjoint pieces."""
    import tskit
    n = n_samples if n_samples is not None else rng.randint(2, 6)
    if diploid and n % 2:
        n += 1
    k = n_internal if n_internal is not None else rng.randint(1, 6)
    L = L if L is not None else rng.choice([2, 3, 5, 8, 13, 30])
    p_parent = p_parent if p_parent is not None else rng.choice([0.6, 0.85, 0.95, 1.0])
    tables = tskit.TableCollection(L)
    times = []
    for i in range(n):
        t = 0.0
        if historical and not diploid and rng.random() < 0.3:
            t = rng.choice([0.5, 1.5, 2.5])
        times.append(t)
    ties = rng.random() < 0.3            # tied node times among the internal nodes
    for j in range(k):
        times.append(float(j // 2 + 1) if ties else float(j + 1))
    flags = [tskit.NODE_IS_SAMPLE] * n + [0] * k
    if internal_samples:
        for j in range(n, n + k):
            if rng.random() < 0.3:
                flags[j] = tskit.NODE_IS_SAMPLE
    if diploid:
        for _ in range(n // 2):
            tables.individuals.add_row()
    for u in range(n + k):
        ind = u // 2 if (diploid and u < n) else -1
        tables.nodes.add_row(flags=flags[u], time=times[u], individual=ind)
    nb = rng.randint(0, min(5, L - 1))
    breaks = [0] + sorted(rng.sample(range(1, L), nb)) + [L]
    # optionally leave a flank / a middle interval without any edge
    empty = set()
    if len(breaks) > 2 and rng.random() < 0.35:
        empty.add(rng.randrange(len(breaks) - 1))
    prev_choice = {}
    for b in range(len(breaks) - 1):
        if b in empty:
            prev_choice = {}
            continue
        l, r = breaks[b], breaks[b + 1]
        choice = {}
        for u in range(n + k):
            # mostly keep the previous interval's parent so that edges span several trees
            if u in prev_choice and rng.random() < 0.6:
                choice[u] = prev_choice[u]
                continue
            cands = [v for v in range(n + k) if times[v] > times[u] and (v >= n)]
            if cands and rng.random() < p_parent:
                choice[u] = rng.choice(cands)
            else:
                choice[u] = None
        for u, p in choice.items():
            if p is not None:
                tables.edges.add_row(l, r, p, u)
        prev_choice = choice
    tables.sort()
    tables.edges.squash()
    return _finish(tables)


def cut_edge(rng, ts):
    """remove an integer sub-interval of one edge: the parent loses a child there (narrowly
    unary stretches at the start / middle / end of an edge), the child becomes a root there"""
    if ts.num_edges == 0:
        return ts
    tables = ts.dump_tables()
    k = rng.randrange(ts.num_edges)
    e = ts.edge(k)
    l, r = int(e.left), int(e.right)
    if r - l < 1:
        return ts
    a = rng.randint(l, r - 1)
    b = rng.randint(a + 1, r)
    if a == l and b == r and rng.random() < 0.5 and r - l > 1:
        b = r - 1
    keep = np.ones(ts.num_edges, dtype=bool)
    keep[k] = False
    tables.edges.keep_rows(keep)
    if a > l:
        tables.edges.add_row(l, a, e.parent, e.child)
    if b < r:
        tables.edges.add_row(b, r, e.parent, e.child)
    return _finish(tables)


def keep_unary_subset(rng, ts):
    """simplify to a subset of the samples keeping unary nodes"""
    samples = list(ts.samples())
    if len(samples) < 3:
        return ts
    k = rng.randint(2, len(samples) - 1)
    sub = sorted(rng.sample(samples, k))
    return ts.simplify(sub, keep_unary=True, filter_sites=False, filter_individuals=False)


def delete_interval(rng, ts, flank=None):
    """gap: delete all edges over an integer interval (flank or middle); no simplification"""
    L = int(ts.sequence_length)
    if L < 2:
        return ts
    kind = flank if flank is not None else rng.choice(["left", "right", "mid"])
    if kind == "left":
        a, b = 0, rng.randint(1, L - 1)
    elif kind == "right":
        a, b = rng.randint(1, L - 1), L
    else:
        if L < 3:
            return ts
        a = rng.randint(1, L - 2)
        b = rng.randint(a + 1, L - 1)
    return ts.delete_intervals([[a, b]], simplify=False)


def isolate_node(rng, ts, node=None):
    """missing data: remove the edges above one sample over an interval"""
    L = int(ts.sequence_length)
    if L < 2 or ts.num_samples == 0:
        return ts
    u = node if node is not None else int(rng.choice(list(ts.samples())))
    a = rng.randint(0, L - 1)
    b = rng.randint(a + 1, L)
    tables = ts.dump_tables()
    tables.edges.clear()
    for e in ts.edges():
        if e.child != u or e.right <= a or e.left >= b:
            tables.edges.add_row(e.left, e.right, e.parent, e.child)
            continue
        if e.left < a:
            tables.edges.add_row(e.left, a, e.parent, e.child)
        if e.right > b:
            tables.edges.add_row(b, e.right, e.parent, e.child)
    return _finish(tables)


def add_mutations(rng, ts, k=None, nodes=None):
    """extra mutations at random integer positions on random nodes: above roots, on isolated
    nodes, beyond the last edge, several per site"""
    import tskit
    L = int(ts.sequence_length)
    k = k if k is not None else rng.randint(1, 8)
    tables = ts.dump_tables()
    pos_site = {float(s.position): s.id for s in ts.sites()}
    tables.mutations.time = np.full(ts.num_mutations, tskit.UNKNOWN_TIME)
    cand = list(nodes) if nodes is not None else list(range(ts.num_nodes))
    if not cand:
        return ts
    # at most one mutation per (site, node): with two on the same branch the genotype depends on
    # the row order tskit's sort gives to ties (DESIGN.md section 9, K9), which is not what is tested
    used = set((int(m.site), int(m.node)) for m in ts.mutations())
    bps = sorted(set(float(x) for x in ts.edges_left) | set(float(x) for x in ts.edges_right if x < L))
    for j in range(k):
        if pos_site and rng.random() < 0.25:
            x = rng.choice(sorted(pos_site))
        elif bps and rng.random() < 0.4:
            x = rng.choice(bps)              # a site exactly ON a tree breakpoint / edge end
        else:
            x = float(rng.randrange(L))
        u = rng.choice(cand)
        if x in pos_site and (pos_site[x], u) in used:
            continue
        if x not in pos_site:
            pos_site[x] = tables.sites.add_row(x, "0")
        used.add((pos_site[x], u))
        tables.mutations.add_row(site=pos_site[x], node=u, derived_state=str(1 + j % 3))
    return _finish(tables)


def site_mutation_coincidence(rng, ts, nodes=None):
    """make num_sites == num_mutations although the site -> mutation map is NOT one-to-one: some site
    carries two mutations and as many mutation-free sites are added (a per-mutation position array and
    ts.sites_position then have the same length but different content)"""
    L = int(ts.sequence_length)
    surplus = ts.num_mutations - ts.num_sites
    if surplus <= 0 and ts.num_sites > 0:
        # put a second mutation on an existing site
        import tskit
        tables = ts.dump_tables()
        tables.mutations.time = np.full(ts.num_mutations, tskit.UNKNOWN_TIME)
        cand = list(nodes) if nodes is not None else list(range(ts.num_nodes))
        sites = list(ts.sites())
        rng.shuffle(sites)
        done = False
        for st in sites:
            here = set(int(m.node) for m in st.mutations)
            free_nodes = [u for u in cand if u not in here]
            if free_nodes:
                tables.mutations.add_row(site=st.id, node=rng.choice(free_nodes), derived_state="9")
                done = True
                break
        if not done:
            return ts
        ts = _finish(tables)
        surplus = ts.num_mutations - ts.num_sites
    if surplus <= 0:
        return ts
    used = set(float(x) for x in ts.sites_position)
    free = [x for x in range(L) if float(x) not in used]
    if len(free) < surplus:
        return ts
    rng.shuffle(free)
    tables = ts.dump_tables()
    for x in free[:surplus]:
        tables.sites.add_row(position=float(x), ancestral_state="N")
    return _finish(tables)


def msprime_ts(rng, ploidy=1, **kw):
    ts = gen.sim_ts(rng, ploidy=ploidy, **kw)
    return ts


def structural_variant(rng, ts, ops=None):
    """apply a random short sequence of the structural mutators"""
    ops = ops if ops is not None else rng.choice([
        [], [], ["cut"], ["cut", "cut"], ["gap"], ["iso"], ["unary"], ["unary", "cut"],
        ["gap", "cut"], ["iso", "iso"], ["unary", "gap"]])
    for op in ops:
        if op == "cut":
            ts = cut_edge(rng, ts)
        elif op == "gap":
            ts = delete_interval(rng, ts)
        elif op == "iso":
            ts = isolate_node(rng, ts)
        elif op == "unary":
            ts = keep_unary_subset(rng, ts)
    return ts, ops


STRETCH_BASES = [2**24 - 2, 2**24 - 1, 2**24, 2**24 + 1, 2**25 - 1, 2**25, 2**31 - 3, 2**31, 2**31 + 1,
                 10**8, 10**8 + 3, 16777218, 250_000_000, 299_999_900]


def stretch_coords(rng, ts):
    """chromosome-scale integer coordinates: x -> 0 for x = 0, base + g*x otherwise, with base next to
    2^24 / 2^25 / 2^31 / 1e8 / 3e8 and g in {1, 2, 3, 8}: every breakpoint but 0 lies above 2^24, where
    float32 (and beyond 2^31, int32) cannot represent integers, and gaps between a node's pieces are
    1-8 bp.  Strictly increasing, so validity, order and all tree relations are unchanged."""
    base = rng.choice(STRETCH_BASES)
    g = rng.choice([1, 1, 2, 3, 8])

    def f(x):
        x = np.asarray(x, dtype=np.float64)
        return np.where(x == 0, 0.0, base + g * x)
    tables = ts.dump_tables()
    tables.sequence_length = float(base + g * int(ts.sequence_length))
    tables.edges.left = f(tables.edges.left)
    tables.edges.right = f(tables.edges.right)
    tables.sites.position = f(tables.sites.position)
    if tables.migrations.num_rows:
        return ts
    tables.build_index()
    return tables.tree_sequence()


def exotic_variant(rng, ts, kinds=None, frac=0.4, p=0.45):
    """with probability `frac`, decorate ts with gen.exotic (valid-but-unusual inputs simulators never
    produce: extra flag bits, ALL nodes renumbered, mutations above local roots, mutation-free sites --
    half of the time exactly as many as there are surplus mutations, so num_sites == num_mutations --,
    unknown mutation times, arbitrary allele states, populations).  Returns (ts, tag)."""
    if rng.random() >= frac:
        return ts, ""
    ts2, applied = gen.exotic(rng, ts, kinds=kinds, p=p)
    if not applied:
        ts2, applied = gen.exotic(rng, ts, kinds=[rng.choice(list(kinds or gen.EXOTIC_KINDS))], p=1.0)
    return ts2, ("+x:" + ",".join(applied)) if applied else ""


def any_ts(rng, diploid=False, mutations=True, max_edges=120, exotic=True, exotic_kinds=None, stretch=0.25):
    """the family's default mixture (bounded size: the models are evaluated inside Coq); ~40% of the
    inputs get gen.exotic decorations"""
    while True:
        ts, kind = _any_ts(rng, diploid, mutations)
        if exotic:
            ts, tag = exotic_variant(rng, ts, kinds=exotic_kinds)
            kind += tag
        if ts.num_edges <= max_edges and ts.num_mutations <= 150:
            if stretch and rng.random() < stretch:
                ts = stretch_coords(rng, ts)
                kind += "+stretch"
            return ts, kind


def _any_ts(rng, diploid=False, mutations=True):
    r = rng.random()
    if r < 0.4:
        ts = random_dag_ts(rng, diploid=diploid, internal_samples=rng.random() < 0.4,
                           historical=rng.random() < 0.3)
        kind = "dag"
        ops = []
        if rng.random() < 0.3:
            ts, ops = structural_variant(rng, ts, ops=rng.choice([["cut"], ["iso"], ["gap"]]))
    else:
        ts = msprime_ts(rng, ploidy=2 if diploid else 1,
                        n=rng.randint(1, 3) if diploid else None,
                        historical=False if diploid else None)
        if not diploid and rng.random() < 0.25:
            ts = gen.internal_samples(rng, ts, k=rng.randint(1, 2))
        kind = "msprime"
        ts, ops = structural_variant(rng, ts)
    if mutations and rng.random() < 0.7:
        ts = add_mutations(rng, ts)
    return ts, kind + ("+" + "+".join(ops) if ops else "")


# ------------------------------------------------------------------ Coq formatting
def coq_edges(ts):
    return clist(ts.edges(), lambda e: "mkEdge %s %s %s %s" % (
        cZ(int(e.left)), cZ(int(e.right)), cnat(e.parent), cnat(e.child)))


def coq_index(ts):
    return (clist(ts.indexes_edge_insertion_order, cnat), clist(ts.indexes_edge_removal_order, cnat))


def coq_bools(xs):
    return clist(xs, cbool)


def coq_muts(ts):
    pos = ts.sites_position[ts.mutations_site]
    return clist(zip(pos, ts.mutations_node), lambda m: cpair(cZ(int(m[0])), cnat(int(m[1]))))


def coq_table_defs(k, ts):
    """top-level Definitions es<k>, ins<k>, rem<k>, smp<k>, muts<k>, nind<k>, L<k> for one input
    (closed list constants elaborate in linear time; one big let-bound tuple does not)"""
    ins, rem = coq_index(ts)
    return ("Definition es%d := %s.\nDefinition ins%d := %s.\nDefinition rem%d := %s.\n"
            "Definition smp%d := %s.\nDefinition muts%d := %s.\nDefinition nind%d := %s.\nDefinition L%d := %s.\n"
            % (k, coq_edges(ts) if ts.num_edges else "@nil edge", k, ins if ts.num_edges else "@nil nat",
               k, rem if ts.num_edges else "@nil nat", k, coq_bools(is_sample_list(ts)),
               k, coq_muts(ts) if ts.num_mutations else "@nil (Z * nat)",
               k, clist(ts.nodes_individual, lambda i: cZ(int(i))), k, cZ(int(ts.sequence_length))))


def coq_run_cases(ctx, texts, requires, tag, chunk=300):
    """texts: list of (definitions, term); one `Eval vm_compute` per case; returns parsed values"""
    out = []
    for i in range(0, len(texts), chunk):
        part = texts[i:i + chunk]
        body = "".join("%sEval vm_compute in %s.\n" % (d, t) for d, t in part)
        res = ctx.coq_eval(body, requires=requires, tag=tag)
        assert len(res) == len(part), (len(res), len(part))
        out.extend(res)
    return out


def integer_coords(ts):
    return (float(ts.sequence_length).is_integer()
            and all(float(x).is_integer() for x in ts.edges_left)
            and all(float(x).is_integer() for x in ts.edges_right)
            and all(float(x).is_integer() for x in ts.sites_position))


def is_sample_list(ts):
    import tskit
    return [bool(f & tskit.NODE_IS_SAMPLE) for f in ts.nodes_flags]


def describe(ts, extra=None):
    d = gen.ts_tables_dict(ts)
    if extra:
        d.update(extra)
    return d


def summary(ts):
    return {"nodes": int(ts.num_nodes), "edges": int(ts.num_edges), "trees": int(ts.num_trees),
            "muts": int(ts.num_mutations), "L": int(ts.sequence_length)}


# ------------------------------------------------------------------ Tree-API references
def ref_mutation_edges(ts):
    """edge above each mutation's node at its position (-1 above a root / isolated)"""
    out = []
    tree = ts.first() if ts.num_trees else None
    pos = ts.sites_position[ts.mutations_site]
    for m in range(ts.num_mutations):
        tree.seek(pos[m])
        out.append(int(tree.edge(int(ts.mutations_node[m]))))
    return out


def ref_tallies(ts, mask=None, size_biased=False):
    """(edges_mutations, edges_span, mutations_edge) by direct tally over the local trees;
    weights = number of nodes of `mask` in the subtree (computed by traversal, no sweep)"""
    E = ts.num_edges
    medge = ref_mutation_edges(ts)
    counts = [0] * E
    spans = [0] * E
    if mask is None:
        mask = is_sample_list(ts)
    if not size_biased:
        for e in medge:
            if e >= 0:
                counts[e] += 1
        for e in ts.edges():
            spans[e.id] = int(e.right) - int(e.left)
        return counts, spans, medge

    def below(tree, u):
        return sum(1 for v in tree.nodes(u) if mask[v])
    pos = ts.sites_position[ts.mutations_site]
    for tree in ts.trees():
        l, r = tree.interval
        for u in range(ts.num_nodes):
            e = tree.edge(u)
            if e >= 0:
                spans[e] += below(tree, u) * (int(r) - int(l))
        for m in range(ts.num_mutations):
            if l <= pos[m] < r and medge[m] >= 0:
                counts[medge[m]] += below(tree, int(ts.mutations_node[m]))
    return counts, spans, medge


def individual_pairs(ts, unphased):
    """{individual: (node0, node1)} for the unphased individuals (diploid ones)"""
    out = {}
    for ind in ts.individuals():
        if unphased[ind.id] and len(ind.nodes) == 2:
            out[ind.id] = (int(ind.nodes[0]), int(ind.nodes[1]))
    return out


def ref_blocks_spec(ts, unphased):
    """the property's definition: per unphased individual, maximal runs of trees over which
    BOTH leaf branches exist and stay the same edges; (span, #singletons inside) per run, and
    for each singleton of the individual the run it falls in (None outside every run).
    Returns {ind: {"blocks": {frozenset(pair): (count, span)}, "mut": {m: frozenset or None}, "lone": bool}}"""
    pos = ts.sites_position[ts.mutations_site]
    out = {}
    for i, (n0, n1) in individual_pairs(ts, unphased).items():
        runs = []           # [left, right, pair]
        lone = False
        for tree in ts.trees():
            l, r = int(tree.interval[0]), int(tree.interval[1])
            a, b = int(tree.edge(n0)), int(tree.edge(n1))
            if (a >= 0) != (b >= 0):
                lone = True
            if a >= 0 and b >= 0:
                pair = frozenset((a, b))
                if runs and runs[-1][2] == pair and runs[-1][1] == l:
                    runs[-1][1] = r
                else:
                    runs.append([l, r, pair])
        blocks = {}
        mut = {}
        muts_i = [m for m in range(ts.num_mutations) if int(ts.mutations_node[m]) in (n0, n1)]
        for m in muts_i:
            mut[m] = None
        for l, r, pair in runs:
            inside = [m for m in muts_i if l <= pos[m] < r]
            blocks[pair] = (len(inside), r - l)
            for m in inside:
                mut[m] = pair
        out[i] = {"blocks": blocks, "mut": mut, "lone": lone, "stray": any(v is None for v in mut.values())}
    return out


def ref_blocks_k8(ts, unphased):
    """per-individual replay of the flush/open rule INCLUDING the behaviour of finding K8
    (singletons seen while only one leaf branch exists are carried into the next flushed block;
    a block opened by a lone branch keeps its id).  Same result shape as ref_blocks_spec plus
    "unflushed": number of block ids opened and never flushed (the kernel then asserts)."""
    pos = ts.sites_position[ts.mutations_site]
    out = {}
    for i, (n0, n1) in individual_pairs(ts, unphased).items():
        cur = [-1, -1]
        open_id = None
        nxt = 0
        start = None
        count = 0
        flushed = {}     # local id -> (pair, count, span)
        mut = {}
        muts_i = [m for m in range(ts.num_mutations) if int(ts.mutations_node[m]) in (n0, n1)]
        muts_i.sort(key=lambda m: pos[m])
        mi = 0
        intervals = [(int(t.interval[0]), int(t.interval[1]), int(t.edge(n0)), int(t.edge(n1))) for t in ts.trees()]
        intervals.append((int(ts.sequence_length), int(ts.sequence_length), -1, -1))
        for l, r, a, b in intervals:
            new = [a, b]
            removed = [k for k in (0, 1) if cur[k] >= 0 and cur[k] != new[k]]
            if removed:
                if cur[0] >= 0 and cur[1] >= 0:
                    flushed[open_id] = (frozenset(cur), count, l - start)
                    open_id, start, count = None, None, 0
                for k in removed:
                    cur[k] = -1
            for k in (0, 1):
                if new[k] >= 0 and new[k] != cur[k]:
                    cur[k] = new[k]
                    start = l
                    if open_id is None:
                        open_id = nxt
                        nxt += 1
            while mi < len(muts_i) and pos[muts_i[mi]] < r:
                mut[muts_i[mi]] = open_id
                count += 1
                mi += 1
        for m in muts_i[mi:]:
            mut[m] = None
        blocks = {}
        mutp = {}
        for k, (pair, c, s) in flushed.items():
            blocks[pair] = (c, s)
        for m, k in mut.items():
            mutp[m] = flushed[k][0] if (k is not None and k in flushed) else (None if k is None else "unflushed")
        out[i] = {"blocks": blocks, "mut": mutp, "unflushed": nxt - len(flushed)}
    return out


def impl_blocks_by_individual(ts, unphased, stats, bedges, mblock):
    """reshape the kernel's output per individual for comparison with the references"""
    out = {}
    pairs = individual_pairs(ts, unphased)
    node_ind = {}
    for i, (n0, n1) in pairs.items():
        node_ind[n0] = i
        node_ind[n1] = i
        out[i] = {"blocks": {}, "mut": {}}
    rows = []
    for b in range(len(bedges)):
        e0, e1 = int(bedges[b][0]), int(bedges[b][1])
        i = node_ind.get(int(ts.edges_child[e0]))
        pair = frozenset((e0, e1))
        rows.append((i, pair))
        if i is not None:
            out[i]["blocks"][pair] = (int(stats[b][0]), int(stats[b][1]))
    for m in range(ts.num_mutations):
        i = node_ind.get(int(ts.mutations_node[m]))
        if i is None:
            if mblock[m] != -1:
                out.setdefault("stray", []).append(m)
            continue
        b = int(mblock[m])
        out[i]["mut"][m] = None if b == -1 else (rows[b][1] if 0 <= b < len(rows) else "out-of-range")
    return out
