"""C17 -- population-size time transforms are exact and mutually inverse (demography.PopulationSizeHistory)."""
import math
import warnings
from fractions import Fraction

import numpy as np

from props import _rescale as K
from vlib.coqfmt import cfloat, clist, copt, cpair

ENV_BY_TIER = {"quick": {"NUMBA_DISABLE_JIT": "1"}, "thorough": {"NUMBA_DISABLE_JIT": "1"}}   # demography.py is pure numpy

RULE = ("piecewise-constant histories with 1-8 epochs; sizes and break spacings log-uniform over 12 orders of magnitude "
        "(1e-6..1e6), as short dyadic numbers (exact in binary64) or arbitrary doubles, or of similar magnitude; time vectors "
        "with 0, every break, the doubles next to every break, points inside every epoch and beyond the last break, mapped "
        "forth and back; a 'scale regime' family (3 of 8 histories): 2-5 epochs whose sizes are ALL very large (1e7..1e13) "
        "or ALL very small (1e-6..1e-2), consecutive sizes differing by factors 1.5..1e4, epochs of comparable coalescent "
        "duration so the breaks sit on the matching generation scale (some rounded to values like 2e8, 2e10); "
        "gamma (shape 0.3..200, rate placing the mass before, across or after the breaks) for "
        "gamma_to_natural (each called TWICE on the same object, many calls share one object); about 45% of the valid "
        "histories additionally go through a reuse / argument-form battery: repeated and interleaved transform and gamma "
        "calls on one object with the attributes and the argument arrays compared bit for bit before/after, times passed as "
        "list (must raise ValueError), np.float32, int64, 0-d, 2-d and empty arrays, constructor arguments as "
        "list/tuple/nested/np.float32/scalar float, int, np.float64, np.int64, 0-d, and PopulationSizeHistory(**as_dict()) "
        "rebuilt AFTER all those calls; plus invalid constructor arguments (non-positive / non-finite sizes, wrong lengths, unsorted or "
        "non-positive breaks) and negative times, which must be rejected. Non-trivial: a valid history with >= 2 epochs, or "
        "a gamma_to_natural call; distinct by content hash. Every several-epoch gamma_to_natural result on a history whose "
        "consecutive sizes are within 1e4 (all scale-regime histories) is compared with the exact (60-digit mpmath) moments "
        "of the mapped gamma, at a tolerance derived from a forward error bound of the code's own formula (measured on /repo: "
        "worst observed error 0.04 of the bound over 12000 cases)")
ASSUME = [
    "scipy.special.gammainc / gamma / loggamma, np.exp / np.log and the float power enter the model as tables of the "
    "values the same calls return (the arithmetic around them is modelled and compared bit for bit)",
    "np.isfinite in the constructor is not modelled (Num has no infinity); rejection of inf/nan sizes is checked on the "
    "implementation only",
    "the code evaluates the integral as t/m_i + step_i, which cancels when b_i/m_i >> integral (sizes falling by many "
    "orders of magnitude): the definition-level oracle allows 8 ulp of the largest intermediate term (the correspondence "
    "with the model stays bit-exact)",
]
LEVEL = "proof"
REQ = ("lib.Num", "model.Rescale", "model.Demography")


# ------------------------------------------------------------------ generators
def _val(rng, style, lo=-6, hi=6):
    if style == "dyadic":
        return rng.randint(1, 15) * 2.0 ** rng.randint(int(lo * 3.3), int(hi * 3.3))
    if style == "near":
        return rng.choice([0.5, 1.0, 2.0, 3.0, 10.0]) * (1 + rng.random())
    return 10.0 ** rng.uniform(lo, hi)


def make_history(rng):
    style = rng.choice(["dyadic", "dyadic", "float", "float", "near", "all-large", "all-large", "all-small"])
    if style in ("all-large", "all-small"):
        return scale_regime_history(rng, style)
    k = rng.choice([1, 1, 2, 2, 3, 4, 5, 8])
    pop = [_val(rng, style) for _ in range(k)]
    incs = [_val(rng, style) for _ in range(k - 1)]
    brks = [float(x) for x in np.cumsum(incs)] if incs else []
    return {"style": style, "pop": pop, "brks": brks}


def scale_regime_history(rng, style):
    """multi-epoch history whose sizes are ALL very large (1e7..1e13) or ALL very small (1e-6..1e-2),
    differing by factors 1.5..1e4, with epochs of comparable COALESCENT duration (so that the breaks live
    on the matching generation scale and a gamma can spread its mass over several epochs)"""
    lo, hi = (1e7, 1e13) if style == "all-large" else (1e-6, 1e-2)
    k = rng.choice([2, 2, 3, 3, 4, 5])
    n = 10.0 ** rng.uniform(math.log10(lo), math.log10(hi))
    pop = [n]
    for _ in range(k - 1):
        f = 10.0 ** rng.uniform(math.log10(1.5), 4)
        cand = [x for x in (pop[-1] * f, pop[-1] / f) if lo <= x <= hi]
        pop.append(rng.choice(cand) if cand else (pop[-1] / f if pop[-1] * f > hi else pop[-1] * f))
    if rng.random() < 0.3:                      # round numbers such as 2e8, 2e10, 2e12
        pop = [min(max(float("%.0e" % x), lo), hi) for x in pop]
    unit = 10.0 ** rng.uniform(-1.5, 1.5)       # coalescent duration scale of an epoch
    t, brks = 0.0, []
    for i in range(k - 1):
        t += unit * 10.0 ** rng.uniform(-1, 0.5) * 2 * pop[i]
        if rng.random() < 0.3 and float("%.3g" % t) > (brks[-1] if brks else 0.0):
            t = float("%.3g" % t)
        brks.append(t)
    return {"style": style, "pop": [float(x) for x in pop], "brks": [float(x) for x in brks]}


def make_invalid(rng):
    h = make_history(rng)
    kind = rng.choice(["zero-size", "neg-size", "length", "unsorted", "zero-break", "dup-break", "inf-size", "nan-size"])
    pop, brks = list(h["pop"]), list(h["brks"])
    if kind == "zero-size":
        pop[rng.randrange(len(pop))] = 0.0
    elif kind == "neg-size":
        pop[rng.randrange(len(pop))] *= -1
    elif kind == "length":
        if rng.random() < 0.5:
            brks.append((brks[-1] if brks else 0.0) + 1.0)
        else:
            pop.append(1.0)
    elif kind == "inf-size":
        pop[rng.randrange(len(pop))] = float("inf")
    elif kind == "nan-size":
        pop[rng.randrange(len(pop))] = float("nan")
    else:
        if len(brks) < 2:
            pop, brks = [1.0, 2.0, 3.0], [5.0, 9.0]
        if kind == "unsorted":
            brks[0], brks[1] = brks[1], brks[0]
        elif kind == "zero-break":
            brks[0] = 0.0
        else:
            brks[1] = brks[0]
    return {"style": "invalid/" + kind, "pop": pop, "brks": brks}


def make_times(rng, brks, scale_last):
    tb = [0.0] + list(brks)
    ts = [0.0]
    for b in tb:
        ts.append(b)
        ts.append(float(np.nextafter(b, np.inf)) if b > 0 else 1e-200)      # no subnormals
        if b > 0:
            ts.append(float(np.nextafter(b, 0.0)))
    for lo, hi in zip(tb[:-1], tb[1:]):
        ts.append(lo + (hi - lo) * rng.random())
    top = tb[-1] if tb[-1] > 0 else scale_last
    ts += [top * (1 + rng.random()), top * 10.0 ** rng.uniform(0, 3), top + scale_last * rng.random()]
    rest = ts[1:]
    rng.shuffle(rest)
    return [0.0] + [float(t) for t in rest[:19]]


# ------------------------------------------------------------------ implementation
def build(pop, brks):
    from tsdate.demography import PopulationSizeHistory
    try:
        return PopulationSizeHistory(np.array(pop, dtype=float), np.array(brks, dtype=float))
    except ValueError as e:
        return "ValueError:" + str(e)[:50]
    except Exception as e:  # noqa
        return "raise:%s:%s" % (type(e).__name__, str(e)[:60])


def call(f, arr):
    try:
        with warnings.catch_warnings():
            warnings.simplefilter("ignore")
            return [float(x) for x in f(np.array(arr, dtype=float))]
    except AssertionError:
        return "assert"
    except Exception as e:  # noqa
        return "raise:%s:%s" % (type(e).__name__, str(e)[:60])


def impl_all(case):
    h = build(case["pop"], case["brks"])
    if isinstance(h, str):
        return h
    out = {"tb": [float(x) for x in h.time_breaks], "ps": [float(x) for x in h.population_size],
           "cb": [float(x) for x in h.coalescent_breaks], "cr": [float(x) for x in h.coalescent_rate]}
    out["co"] = call(h.to_coalescent_timescale, case["ts"])
    out["na"] = call(h.to_natural_timescale, case["cs"])
    d = h.as_dict()
    out["d_pop"] = [float(x) for x in d["population_size"]]
    out["d_brk"] = [float(x) for x in d.get("time_breaks", [])]
    out["obj"] = h
    return out


def gamma_tables(h, shape, rate):
    """the values the special functions return for exactly the arguments gamma_to_natural uses
    (scipy gammainc / gamma / loggamma, exp, log, float power, and the numpy SCALAR square mn**2,
    which goes through libm pow and is not always the rounded product)"""
    import scipy.special
    with warnings.catch_warnings():
        warnings.simplefilter("ignore")
        try:
            Cn = np.exp(shape * np.log(rate) - scipy.special.loggamma(shape))
            gt, gam, pw, cdf = [], [], [], []
            cdf_breaks = np.append(h.coalescent_breaks, [np.inf])
            for j in (0, 1, 2):
                sj = shape + j
                gam.append((float(sj), float(scipy.special.gamma(sj))))
                pw.append((float(rate), float(sj), float(rate ** sj)))
                for b in h.coalescent_breaks:
                    x = rate * b
                    gt.append((float(sj), float(x), float(scipy.special.gammainc(sj, x))))
                cdf.append(Cn * scipy.special.gamma(sj) / rate ** sj * np.diff(scipy.special.gammainc(sj, rate * cdf_breaks)))
            # mn exactly as demography.py:191-208 forms it (only to learn the argument of the scalar square)
            mn_coef_0 = h.time_breaks - h.population_size * h.coalescent_breaks
            mn = np.sum(h.population_size * cdf[1] + mn_coef_0 * cdf[0])
            sq = [(float(mn), float(mn ** 2))]
        except OverflowError:
            return None
    return gt, gam, pw, [(float(shape), float(rate), float(Cn))], sq


def impl_gamma(h, shape, rate):
    try:
        with warnings.catch_warnings():
            warnings.simplefilter("ignore")
            r = h.gamma_to_natural(shape, rate)
        return (float(r[0]), float(r[1]))
    except AssertionError:
        return "assert"
    except Exception as e:  # noqa
        return "raise:%s:%s" % (type(e).__name__, str(e)[:60])


# ------------------------------------------------------------------ model
HDR = """
Definition olist (o : option (list float)) := o.
Definition run (pop brks ts cs : list float) : option (list (option (list float))) :=
  match mk_history FNum pop brks with
  | None => None
  | Some h => Some [Some (h_tb FNum h); Some (h_ps FNum h); Some (h_cb FNum h); Some (h_cr FNum h);
                    to_coalescent FNum h ts; to_natural FNum h cs;
                    Some (fst (as_dict FNum h)); Some (snd (as_dict FNum h))]
  end.
Fixpoint look1 (tb : list (float * float)) (a : float) : float :=
  match tb with [] => nan | (x, v) :: r => if PrimFloat.eqb x a then v else look1 r a end.
Fixpoint look2 (tb : list (float * float * float)) (a q : float) : float :=
  match tb with
  | [] => nan
  | (x, y, v) :: r => if PrimFloat.eqb x a && PrimFloat.eqb y q then v else look2 r a q
  end.
Definition rung gt gam pw ct sq (pop brks : list float) (shape rate : float) :=
  match mk_history FNum pop brks with
  | None => None
  | Some h => gamma_to_natural FNum (look2 gt) (look1 gam) (look2 pw) (look2 ct) (look1 sq) h shape rate
  end.
"""


def fl(xs):
    return clist(xs, cfloat)


def model_all(ctx, cases):
    terms = ["run %s %s %s %s" % (fl(c["pop"]), fl(c["brks"]), fl(c["ts"]), fl(c["cs"])) for c in cases]
    out = []
    for i in range(0, len(terms), 200):
        body = HDR + "Definition cases := %s.\nEval vm_compute in cases.\n" % clist(terms[i:i + 200])
        out += ctx.coq_eval(body, requires=REQ, tag="demo")[0]
    conv = []
    for r in out:
        if r is None:
            conv.append(None)
        else:
            conv.append([None if x is None else [float(v) for v in x[1]] for x in r[1]])
    return conv


def model_gamma(ctx, items):
    def t3(tb):
        return clist(tb, lambda r: "(%s, %s, %s)" % (cfloat(r[0]), cfloat(r[1]), cfloat(r[2])))
    terms = []
    for it in items:
        gt, gam, pw, ct, sq = it["tabs"]
        p2 = lambda tb: clist(tb, lambda r: cpair(cfloat(r[0]), cfloat(r[1])))
        terms.append("rung %s %s %s %s %s %s %s %s %s" % (
            t3(gt), p2(gam), t3(pw), t3(ct), p2(sq),
            fl(it["pop"]), fl(it["brks"]), cfloat(it["shape"]), cfloat(it["rate"])))
    out = []
    for i in range(0, len(terms), 150):
        body = HDR + "Definition cases := %s.\nEval vm_compute in cases.\n" % clist(terms[i:i + 150])
        out += ctx.coq_eval(body, requires=REQ, tag="gamma")[0]
    return [None if r is None else (float(r[1][0]), float(r[1][1])) for r in out]


# ------------------------------------------------------------------ definition-level references
def ctm_exact(brk, tm, x):
    """exact value of the change of measure at x for breaks brk / measures tm (doubles, taken
    exactly), and the largest intermediate magnitude of the code's formula x/m_i + step_i
    (its rounding scale)"""
    b = [Fraction(v) for v in brk]
    m = [Fraction(v) for v in tm]
    X = Fraction(x)
    i = max(j for j in range(len(b)) if b[j] <= X)
    acc = sum((b[j + 1] - b[j]) / m[j] for j in range(i))
    val = acc + (X - b[i]) / m[i]
    steps = [Fraction(0)]
    for k in range(i):
        steps.append(steps[-1] + b[k + 1] * (1 / m[k] - 1 / m[k + 1]))
    scale = max([abs(X / m[i]), abs(val)] + [abs(v) for v in steps] +
                [abs(b[k + 1] / m[k]) for k in range(i)] + [abs(b[k + 1] / m[k + 1]) for k in range(i)])
    return val, scale, i


def exact_integral(pop, brks, t):
    """integral of 1/(2N) from 0 to t in rational arithmetic on the double inputs (+ rounding scale)"""
    val, scale, _i = ctm_exact([0.0] + list(brks), [2 * Fraction(p) for p in pop], t)
    return val, scale


U = Fraction(2) ** -52


def quad_integral(pop, brks, t):
    import scipy.integrate
    tb = [0.0] + list(brks)
    total = 0.0
    for j in range(len(tb)):
        lo = tb[j]
        hi = tb[j + 1] if j + 1 < len(tb) else math.inf
        if t <= lo:
            break
        v, _e = scipy.integrate.quad(lambda s: 1.0 / (2.0 * pop[j]), lo, min(hi, t))
        total += v
    return total


def quad_gamma_moments(h, shape, rate):
    """mean and variance of g(X), X ~ Gamma(shape, rate) on the coalescent scale, g = to_natural;
    by numerical quadrature epoch by epoch"""
    import scipy.integrate
    import scipy.stats
    dist = scipy.stats.gamma(shape, scale=1.0 / rate)
    cb = [float(x) for x in h.coalescent_breaks] + [math.inf]
    tb = [float(x) for x in h.time_breaks]
    m = [float(x) for x in h.population_size]
    m1 = m2 = 0.0
    lo_q, hi_q = dist.ppf(1e-13), dist.ppf(1 - 1e-13)
    for i in range(len(tb)):
        a, b = max(cb[i], lo_q), min(cb[i + 1], hi_q)
        if b <= a:
            continue
        pts = [p for p in (dist.mean(), dist.ppf(0.01), dist.ppf(0.5), dist.ppf(0.99)) if a < p < b]

        def g(c, i=i):
            return tb[i] + (c - cb[i]) * m[i]
        v1, _ = scipy.integrate.quad(lambda c: g(c) * dist.pdf(c), a, b, points=pts or None, limit=200, epsabs=0, epsrel=1e-11)
        v2, _ = scipy.integrate.quad(lambda c: g(c) ** 2 * dist.pdf(c), a, b, points=pts or None, limit=200, epsabs=0, epsrel=1e-11)
        m1 += v1
        m2 += v2
    return m1, m2 - m1 * m1


# ------------------------------------------------------------------ oracle
def oracle_history(ctx, case, out):
    rp = {"case": {k: case[k] for k in ("style", "pop", "brks", "ts", "cs")}}
    invalid = case["style"].startswith("invalid")
    if isinstance(out, str):
        if not invalid or not out.startswith("ValueError"):
            ctx.oracle_fail("constructor:" + out, "constructor raised on a valid history / wrong exception", rp)
        return
    if invalid:
        ctx.oracle_fail("invalid-accepted:" + case["style"], "an invalid history was accepted", rp)
        return
    pop, brks = case["pop"], case["brks"]
    h = out["obj"]
    # as_dict round trip: identical object
    if out["d_pop"] != pop or out["d_brk"] != brks:
        ctx.oracle_fail("as_dict-values", "as_dict() does not return the constructor arguments", dict(rp, impl=[out["d_pop"], out["d_brk"]]))
        return
    h2 = build(out["d_pop"], out["d_brk"])
    if isinstance(h2, str) or not all(np.array_equal(getattr(h, a), getattr(h2, a)) for a in
                                      ("time_breaks", "population_size", "coalescent_breaks", "coalescent_rate")):
        ctx.oracle_fail("as_dict-roundtrip", "rebuilding from as_dict() gives a different history", rp)
        return
    co = out["co"]
    if isinstance(co, str):
        ctx.oracle_fail("to_coalescent:" + co, "to_coalescent_timescale raised on non-negative times", rp)
        return
    # the integral, exactly
    for t, c in zip(case["ts"], co):
        val, scale = exact_integral(pop, brks, t)
        err = abs(Fraction(c) - val)
        if err > 8 * U * scale + Fraction(1, 10 ** 290):
            ctx.oracle_fail("not-integral", "to_coalescent_timescale(t) is not the integral of 1/(2N)",
                            dict(rp, t=t, impl=c, expected=float(val), rounding_scale=float(scale)))
            return
    if co[case["ts"].index(0.0)] != 0.0:
        ctx.oracle_fail("zero-moved", "time 0 is not mapped to 0", rp)
        return
    # monotone, strictly where the doubles allow it
    pairs = sorted(zip(case["ts"], co))
    for (t0, c0), (t1, c1) in zip(pairs[:-1], pairs[1:]):
        _v, scale = exact_integral(pop, brks, t1)
        if c1 < c0 - 8 * 2.0 ** -52 * float(scale):
            ctx.oracle_fail("not-monotone", "to_coalescent_timescale reversed two times", dict(rp, t=[t0, t1], c=[c0, c1]))
            return
    # continuity at the breaks: value at the break = coalescent break; neighbours close
    tb = [0.0] + brks
    for i, b in enumerate(tb):
        if b == 0:
            continue
        r = call(h.to_coalescent_timescale, [b, float(np.nextafter(b, np.inf)), float(np.nextafter(b, 0.0))])
        _v, scale = exact_integral(pop, brks, b)
        tol = 16 * 2.0 ** -52 * float(scale) + 4 * 2.0 ** -52 * abs(b) / (2 * min(pop[max(i - 1, 0)], pop[i]))
        if r[0] != out["cb"][i] or any(abs(x - r[0]) > tol for x in r[1:]):
            ctx.oracle_fail("discontinuous", "jump at a break", dict(rp, brk=b, values=r, coalescent_break=out["cb"][i]))
            return
    # inverse, both directions.  Forward error analysis of the code's own formulas: a coalescent
    # break cb_j carries the rounding of F at b_j (8 ulp of F's largest intermediate term), which
    # G amplifies by the slopes 2N of the epochs up to the one used; G adds its own rounding.
    na = call(h.to_natural_timescale, co)
    if isinstance(na, str):
        collide = not K.strictly_increasing(out["cb"])
        ctx.oracle_fail("to_natural:" + na + (":coalescent-breaks-collide-in-doubles" if collide else ""),
                        "to_natural_timescale raised on the image of to_coalescent_timescale", dict(rp, coalescent_breaks=out["cb"]))
        return
    cbd, crd = out["cb"], out["cr"]
    mF = [2 * Fraction(p) for p in pop]
    sFb = [ctm_exact(tb, mF, b)[1] for b in tb]

    def tol_G(c):
        _w, sG, k = ctm_exact(cbd, crd, c)
        hi = min(k + 2, len(tb))
        return 32 * U * ((k + 2) * max(mF[:hi]) * max(sFb[:hi]) + sG) + Fraction(1, 10 ** 290), k

    for t, c, t2 in zip(case["ts"], co, na):
        _v, sF, i = ctm_exact(tb, mF, t)
        tg, k = tol_G(c)
        tol = tg + 16 * U * max(mF[max(i - 1, 0):i + 2]) * sF + 8 * U * abs(Fraction(t))
        if abs(Fraction(t2) - Fraction(t)) > tol:
            ctx.oracle_fail("not-inverse", "to_natural_timescale(to_coalescent_timescale(t)) is not t",
                            dict(rp, t=t, c=c, back=t2, tolerance=float(tol)))
            return
    na2 = out["na"]
    if isinstance(na2, str):
        ctx.oracle_fail("to_natural:" + na2, "to_natural_timescale raised on non-negative times", rp)
        return
    co2 = call(h.to_coalescent_timescale, na2)
    if isinstance(co2, str):
        ctx.oracle_fail("to_coalescent:" + co2, "to_coalescent_timescale raised on the image of to_natural", rp)
        return
    for c, t, c2 in zip(case["cs"], na2, co2):
        tg, k = tol_G(c)
        _v, sF, i = ctm_exact(tb, mF, t)
        lo = min(mF[max(min(i, k) - 1, 0):max(i, k) + 2])
        tol = tg / lo + 16 * U * sF + 8 * U * abs(Fraction(c))
        if abs(Fraction(c2) - Fraction(c)) > tol:
            ctx.oracle_fail("not-inverse-2", "to_coalescent_timescale(to_natural_timescale(c)) is not c",
                            dict(rp, c=c, t=t, back=c2, tolerance=float(tol)))
            return
    # to_natural is strictly increasing too
    pairs = sorted(zip(case["cs"], na2))
    for (c0, t0), (c1, t1) in zip(pairs[:-1], pairs[1:]):
        _w, sG, _k = ctm_exact(cbd, crd, c1)
        if t1 < t0 - 8 * 2.0 ** -52 * float(sG):
            ctx.oracle_fail("natural-not-monotone", "to_natural_timescale reversed two times", dict(rp, c=[c0, c1], t=[t0, t1]))
            return


def oracle_quadrature(ctx, case, out):
    """scipy quadrature of 1/(2N) on a few points (slow: subset)"""
    if isinstance(out, str) or isinstance(out["co"], str):
        return
    for t, c in list(zip(case["ts"], out["co"]))[:4]:
        q = quad_integral(case["pop"], case["brks"], t)
        _v, scale = exact_integral(case["pop"], case["brks"], t)
        if abs(q - c) > 1e-9 * max(abs(q), float(scale) * 1e-6):
            ctx.oracle_fail("quad-integral", "to_coalescent_timescale(t) differs from numerical quadrature of 1/(2N)",
                            {"case": {k: case[k] for k in ("pop", "brks")}, "t": t, "impl": c, "quad": q})
            return


def mp_gamma_reference(pop, brks, shape, rate):
    """exact (60 digits, mpmath) mean/variance in generations of X ~ Gamma(shape, rate) on the coalescent
    scale pushed through the piecewise-linear map of the history given by the DOUBLES pop/brks, from the
    partial moments of the gamma density; and a forward bound on the rounding error of the code's own
    formula (demography.py:182-212) per unit of relative error delta in its terms:
    -> (mean, var, err_mean, err_var0) with err_* per unit delta"""
    import mpmath
    mp = mpmath.mp
    old = mp.dps
    mp.dps = 60
    try:
        tb = [mpmath.mpf(0)] + [mpmath.mpf(b) for b in brks]
        m = [2 * mpmath.mpf(p) for p in pop]
        cb = [mpmath.mpf(0)]
        for j in range(len(tb) - 1):
            cb.append(cb[-1] + (tb[j + 1] - tb[j]) / m[j])
        s, r = mpmath.mpf(shape), mpmath.mpf(rate)
        edges = cb + [mpmath.inf]
        mean = var0 = err_m = err_v = mpmath.mpf(0)
        kfac = [mpmath.rf(s, j) / r ** j for j in range(3)]        # Gamma(s+j) / (Gamma(s) r^j)
        # rounding scale of the code's coalescent_breaks[i] = b_i/m_i + step_i (cancels when sizes fall)
        steps, dcb = [mpmath.mpf(0)], []
        for k in range(len(tb) - 1):
            steps.append(steps[-1] + tb[k + 1] * (1 / m[k] - 1 / m[k + 1]))
        for i in range(len(tb)):
            dcb.append(max([abs(tb[i] / m[i])] + [abs(v) for v in steps[: i + 1]] +
                           [abs(tb[k + 1] / m[k]) for k in range(i)] + [abs(tb[k + 1] / m[k + 1]) for k in range(i)]))
        for i in range(len(tb)):
            a0 = tb[i] - m[i] * cb[i]                             # g(c) = a0 + m_i c on epoch i
            P = []
            for j in range(3):
                hi = mpmath.mpf(1) if edges[i + 1] == mpmath.inf else mpmath.gammainc(s + j, 0, r * edges[i + 1], regularized=True)
                lo = mpmath.gammainc(s + j, 0, r * edges[i], regularized=True) if edges[i] > 0 else mpmath.mpf(0)
                P.append((hi - lo, abs(hi) + abs(lo)))
            c0, c1, c2 = (kfac[j] * P[j][0] for j in range(3))
            e0, e1, e2 = (kfac[j] * P[j][1] for j in range(3))       # size of what is subtracted in np.diff
            mean += m[i] * c1 + a0 * c0
            var0 += m[i] ** 2 * c2 + 2 * a0 * m[i] * c1 + a0 ** 2 * c0
            # a0 itself is a difference of two roundings: |tb| + |m cb|
            a0s = abs(tb[i]) + abs(m[i] * cb[i])
            err_m += m[i] * e1 + a0s * e0
            err_v += m[i] ** 2 * e2 + 2 * a0s * m[i] * e1 + a0s ** 2 * e0
            # an error d in coalescent_breaks[i] shifts the map on epoch i by m_i * d
            mass, absg = kfac[0] * P[0][0], m[i] * kfac[1] * P[1][0] + a0s * kfac[0] * P[0][0]
            err_m += m[i] * dcb[i] * mass
            err_v += 2 * m[i] * dcb[i] * absg
        return float(mean), float(var0 - mean ** 2), float(err_m), float(err_v)
    finally:
        mp.dps = old


GAMMA_DELTA = 2.0 ** -52 * 64        # measured on /repo: worst observed error / bound < 0.1 with this delta


def gamma_tolerances(mn, va, err_m, err_v, shape):
    """relative tolerances for (new_shape, new_rate) = (mn^2/va, mn/va) given the forward bound"""
    d = GAMMA_DELTA * (1.0 + shape)
    em = d * err_m                       # absolute error of mn
    ev = d * err_v + 2 * abs(mn) * em    # absolute error of va = va0 - mn^2
    rel_m, rel_v = em / abs(mn), ev / abs(va)
    return 2 * rel_m + rel_v + 1e-13, rel_m + rel_v + 1e-13


def well_conditioned(pop):
    return max(pop) / min(pop) <= 1.0001e6 and all(max(a, b) / min(a, b) <= 1.0001e4 for a, b in zip(pop[:-1], pop[1:]))


def oracle_gamma(ctx, it, res, h):
    rp = {"case": {k: it[k] for k in ("pop", "brks", "shape", "rate")}, "impl": res}
    if isinstance(res, str):
        ctx.oracle_fail("gamma:" + res, "gamma_to_natural raised on valid parameters", rp)
        return
    shape, rate = it["shape"], it["rate"]
    if math.isnan(res[0]) or math.isnan(res[1]):
        gt, gam, pw, ct, _sq = gamma_tables(h, shape, rate)
        factors = [v for _a, v in gam] + [v for _r, _s, v in pw] + [ct[0][2]]
        bad = any((not math.isfinite(v)) or v == 0.0 for v in factors)
        ctx.oracle_fail("gamma-nan:" + ("intermediate-factor-out-of-double-range" if bad else "other"),
                        "gamma_to_natural returned nan", dict(rp, factors=factors))
        return
    if len(it["pop"]) == 1:
        want = (shape, rate / (2 * it["pop"][0]))
        if not (K.close(res[0], want[0], rel=1e-7 * max(1.0, shape)) and K.close(res[1], want[1], rel=1e-7 * max(1.0, shape))):
            ctx.oracle_fail("gamma-constant", "constant size: result is not (shape, rate / 2N)", dict(rp, expected=want))
        return
    # several epochs: exact partial-moment reference, tolerance = forward error bound of the code's formula
    # (only where the double coalescent breaks themselves are well conditioned: consecutive sizes within a
    # factor 1e4, all within 1e6 -- every scale-regime history qualifies; histories whose sizes fall by 1e6 or more
    # carry cancellation errors in coalescent_breaks that this bound does not model)
    wellcond = well_conditioned(it["pop"])
    mn, va, err_m, err_v = mp_gamma_reference(it["pop"], it["brks"], shape, rate) if wellcond else (0, 0, 0, 0)
    if va > 0 and mn > 0:
        want = (mn * mn / va, mn / va)
        tol_s, tol_r = gamma_tolerances(mn, va, err_m, err_v, shape)
        it["tol"] = (tol_s, tol_r)
        if tol_s < 0.05:                 # otherwise the code's own formula has no digits left: nothing to compare
            ctx.tally("gamma/exact-reference")
            if not (K.close(res[0], want[0], rel=tol_s) and K.close(res[1], want[1], rel=tol_r)):
                tabs = it.get("tabs") or gamma_tables(h, shape, rate)
                factors = [v for _a, v in tabs[1]] + [v for _r, _s, v in tabs[2]] + [tabs[3][0][2]]
                edge = any(abs(v) < 1e-290 or abs(v) > 1e290 for v in factors)     # subnormal / near overflow: K-C17-2
                ctx.oracle_fail("gamma-moments-exact" + (":intermediate-factor-out-of-double-range" if edge else ""),
                                "mean/variance differ from the exact moments of the mapped coalescent gamma",
                                dict(rp, expected=want, mean=mn, var=va, tolerance=[tol_s, tol_r]))
                return
        else:
            ctx.tally("gamma/ill-conditioned-skipped")
    if not it.get("quad"):
        return
    mn, va = quad_gamma_moments(h, shape, rate)
    if not (va > 0 and mn > 0):
        return
    want = (mn * mn / va, mn / va)
    # variance by difference: relative conditioning m2/va
    cond = max(1.0, (mn * mn + va) / va)
    if not (K.close(res[0], want[0], rel=2e-7 * cond) and K.close(res[1], want[1], rel=2e-7 * cond)):
        ctx.oracle_fail("gamma-moments", "mean/variance differ from quadrature of the mapped coalescent gamma",
                        dict(rp, expected=want, mean=mn, var=va))


def _same(a, b):
    a, b = np.asarray(a, dtype=float), np.asarray(b, dtype=float)
    return a.shape == b.shape and bool(np.all((a == b) | (np.isnan(a) & np.isnan(b))))


ATTRS = ("time_breaks", "population_size", "coalescent_breaks", "coalescent_rate")


def oracle_reuse(ctx, rng, case, out):
    """the same object used for many calls, unusual argument forms, and the as_dict round trip AFTER
    all of that: nothing may depend on earlier calls, on the container type of the times, or be
    modified in place"""
    from tsdate.demography import PopulationSizeHistory
    if isinstance(out, str) or isinstance(out["co"], str) or isinstance(out["na"], str):
        return
    h = out["obj"]
    rp = {"case": {k: case[k] for k in ("style", "pop", "brks", "ts", "cs")}}
    snap = {a: np.array(getattr(h, a), copy=True) for a in ATTRS}
    ts = np.array(case["ts"], dtype=float)
    cs = np.array(case["cs"], dtype=float)
    ts_keep, cs_keep = ts.copy(), cs.copy()

    def fail(sig, what, **kw):
        ctx.oracle_fail("reuse:" + sig, what, dict(rp, **kw))

    # gamma_to_natural twice (state cached on / scaled inside the object would show here)
    shape = rng.choice([0.7, 2.0, 11.0])
    cb = [float(x) for x in h.coalescent_breaks]
    rate = shape / (cb[1] if len(cb) > 1 and cb[1] > 0 else 1.0)
    g = [impl_gamma(h, shape, rate) for _ in range(2)]
    g.append(impl_gamma(h, np.float64(shape), np.float64(rate)))
    if any(isinstance(x, str) for x in g) or not (_same(g[0], g[1]) and _same(g[0], g[2])):
        return fail("gamma-second-call", "repeated gamma_to_natural calls on one object differ", gamma=[shape, rate], results=g)
    # both transforms again, interleaved, after the gamma calls
    for rep in range(2):
        if not _same(call(h.to_coalescent_timescale, ts), out["co"]) or not _same(call(h.to_natural_timescale, cs), out["na"]):
            return fail("repeat-call", "a repeated transform on the same object gives a different result", repetition=rep)
    if not (np.array_equal(ts, ts_keep) and np.array_equal(cs, cs_keep)):
        return fail("argument-modified", "the time array passed in was modified in place")
    for a in ATTRS:
        if not _same(getattr(h, a), snap[a]):
            return fail("state-changed:" + a, "an attribute of the object changed after calls")
    # argument forms
    for name, f, x, ref in (("to_coalescent", h.to_coalescent_timescale, ts, out["co"]),
                            ("to_natural", h.to_natural_timescale, cs, out["na"])):
        try:
            f(list(x))
            return fail("list-accepted:" + name, "a list of times was accepted although the method documents numpy arrays only")
        except ValueError as e:
            if "numpy array" not in str(e):
                return fail("list-error:" + name, "unexpected error text for a list argument", error=str(e))
        except Exception as e:  # noqa
            return fail("list-raise:" + name, "a list argument raised %s" % type(e).__name__, error=str(e)[:80])
        x32 = x.astype(np.float32)
        ok32 = np.isfinite(x32.astype(float)).all()
        if ok32 and not _same(call(f, x32), call(f, x32.astype(np.float64))):
            return fail("float32:" + name, "np.float32 times are not treated as their float64 values")
        xi = np.floor(np.minimum(x, 2.0 ** 50)).astype(np.int64)
        if not _same(call(f, xi), call(f, xi.astype(np.float64))):
            return fail("int64:" + name, "integer times are not treated as their float64 values")
        for i in (0, len(x) // 2, len(x) - 1):
            try:
                with warnings.catch_warnings():
                    warnings.simplefilter("ignore")
                    v = f(np.array(x[i]))
            except Exception as e:  # noqa
                return fail("0-d-raise:" + name, "a 0-d array raised %s" % type(e).__name__, error=str(e)[:80])
            if np.shape(v) != () or not _same(v, ref[i]):
                return fail("0-d:" + name, "a 0-d array gives a different value", index=i, value=float(v), expected=ref[i])
        if len(x) % 2 == 0 and len(x) >= 2:
            v = call(lambda z: f(z).ravel(), x.reshape(2, -1))
            if not _same(v, ref):
                return fail("2-d:" + name, "a 2-d array gives different values")
        if call(f, np.array([], dtype=float)) != []:
            return fail("empty:" + name, "an empty array is not mapped to an empty array")
    # as_dict -> constructor, after everything above
    d = h.as_dict()
    try:
        h2 = PopulationSizeHistory(**d)
    except Exception as e:  # noqa
        return fail("as_dict-rebuild-raise", "PopulationSizeHistory(**h.as_dict()) raised %s" % type(e).__name__, error=str(e)[:80])
    if not all(_same(getattr(h2, a), snap[a]) for a in ATTRS) or not _same(call(h2.to_coalescent_timescale, ts), out["co"]):
        return fail("as_dict-after-calls", "rebuilding from as_dict() after calls gives a different history")
    if not _same(impl_gamma(h2, shape, rate), g[0]):
        return fail("as_dict-gamma", "gamma_to_natural differs on the history rebuilt from as_dict()")
    # constructor argument forms
    pop, brks = case["pop"], case["brks"]
    forms = [("list", list(pop), list(brks)), ("tuple", tuple(pop), tuple(brks)),
             ("nested", [list(pop)], [list(brks)])]
    if len(pop) == 1:
        forms += [("float", float(pop[0]), None), ("np.float64", np.float64(pop[0]), None), ("0-d", np.array(pop[0]), None),
                  ("empty-breaks", [pop[0]], [])]
        if float(pop[0]).is_integer() and abs(pop[0]) < 2 ** 50:
            forms += [("int", int(pop[0]), None), ("np.int64", np.int64(pop[0]), None)]
    for nm, a, b in forms:
        try:
            hx = PopulationSizeHistory(a) if b is None else PopulationSizeHistory(a, b)
        except Exception as e:  # noqa
            return fail("constructor-form-raise:" + nm, "constructor raised %s on an equivalent argument form" % type(e).__name__, error=str(e)[:80])
        if not all(_same(getattr(hx, at), snap[at]) for at in ATTRS):
            return fail("constructor-form:" + nm, "an equivalent argument form builds a different history")
    p32, b32 = np.array(pop, dtype=np.float32), np.array(brks, dtype=np.float32)
    ref32 = build(p32.astype(float), b32.astype(float))
    got32 = build(p32, b32) if True else None
    try:
        got32 = PopulationSizeHistory(p32, b32)
    except ValueError:
        got32 = "ValueError"
    if isinstance(ref32, str) != isinstance(got32, str) or \
            (not isinstance(ref32, str) and not all(_same(getattr(got32, at), getattr(ref32, at)) for at in ATTRS)):
        return fail("constructor-float32", "np.float32 arguments are not treated as their float64 values")


# ------------------------------------------------------------------ driver
def history_block(ctx, model_ok, n, n_invalid):
    cases = []
    for k in range(n + n_invalid):
        c = make_history(ctx.rng) if k < n else make_invalid(ctx.rng)
        scale = (2 * c["pop"][-1]) if c["pop"][-1] > 0 and math.isfinite(c["pop"][-1]) else 1.0
        good = all(b > 0 and math.isfinite(b) for b in c["brks"]) and c["brks"] == sorted(c["brks"])
        c["ts"] = make_times(ctx.rng, c["brks"] if good else [], scale)
        cases.append(c)
    outs = []
    for c in cases:
        h = build(c["pop"], c["brks"])
        if isinstance(h, str):
            c["cs"] = [0.0, 1.0]
        else:
            # coalescent times: images of the times, the coalescent breaks and their neighbours
            cb = [float(x) for x in h.coalescent_breaks]
            cs = list(cb) + [float(np.nextafter(x, np.inf)) if x > 0 else 1e-200 for x in cb] + \
                [float(np.nextafter(x, 0.0)) for x in cb if x > 0]
            cs += [cb[-1] + 10.0 ** ctx.rng.uniform(-3, 3) for _ in range(3)]
            ctx.rng.shuffle(cs)
            c["cs"] = cs[:16]
        outs.append(impl_all(c))
    # negative times must be rejected
    for c, o in list(zip(cases, outs))[:40]:
        if not isinstance(o, str):
            r = call(o["obj"].to_coalescent_timescale, [1.0, -1e-9])
            if r != "assert":
                ctx.oracle_fail("negative-accepted", "a negative time was not rejected", {"case": {"pop": c["pop"], "brks": c["brks"]}, "impl": r})
    if model_ok:
        finite = [all(math.isfinite(x) for x in c["pop"]) for c in cases]
        sel = [i for i, f in enumerate(finite) if f]
        model = model_all(ctx, [cases[i] for i in sel])
        for i, m in zip(sel, model):
            c, o = cases[i], outs[i]
            if isinstance(o, str):
                ok = m is None
            else:
                ok = m is not None
                if ok:
                    for key, mv in zip(("tb", "ps", "cb", "cr", "co", "na", "d_pop", "d_brk"), m):
                        iv = o[key]
                        if isinstance(iv, str):
                            ok = ok and mv is None
                        else:
                            ok = ok and mv is not None and K.close_list(iv, mv)
            ctx.corr("PopulationSizeHistory", ok, "impl=%r model=%r" % ({k: v for k, v in o.items() if k != "obj"} if not isinstance(o, str) else o, m),
                     replay={"case": {k: c[k] for k in ("style", "pop", "brks", "ts", "cs")}})
    for k, (c, o) in enumerate(zip(cases, outs)):
        ctx.case({"style": c["style"], "pop": c["pop"], "brks": c["brks"], "ts": c["ts"][:5],
                  "coalescent": o if isinstance(o, str) else (o["co"] if isinstance(o["co"], str) else o["co"][:5])},
                 nontrivial=(not isinstance(o, str)) and len(c["pop"]) >= 2, kind="history/" + c["style"] + ("/%d" % len(c["pop"]) if not c["style"].startswith("invalid") else ""))
        oracle_history(ctx, c, o)
        if k % 6 == 0:
            oracle_quadrature(ctx, c, o)
        if ctx.rng.random() < 0.45 and not isinstance(o, str):
            ctx.tally("reuse-and-argument-forms")
            oracle_reuse(ctx, ctx.rng, c, o)
    return cases, outs


def gamma_block(ctx, model_ok, cases, outs, n, n_quad):
    valid = [(c, o) for c, o in zip(cases, outs) if not isinstance(o, str)]
    items = []
    for k in range(n):
        c, o = ctx.rng.choice(valid)
        h = o["obj"]
        shape = ctx.rng.choice([0.3, 1.0, 2.0, 5.5, 30.0, 120.0, 10.0 ** ctx.rng.uniform(-0.5, 2)] + ([200.0] if k % 40 == 7 else []))
        cb = [float(x) for x in h.coalescent_breaks]
        centre = ctx.rng.choice(cb[1:] + cb[1:] + [cb[-1] * 3 if cb[-1] > 0 else 1.0, 0.3 * (cb[1] if len(cb) > 1 else 1.0)])
        rate = shape / centre if centre > 0 else shape
        if (shape + 2) * abs(math.log10(rate)) > 250:         # rate ** (shape + 2) must not overflow / underflow
            rate = 10.0 ** math.copysign(250.0 / (shape + 2), math.log10(rate))
        it = {"pop": c["pop"], "brks": c["brks"], "shape": float(shape), "rate": float(rate), "h": h,
              "quad": k < n_quad and c["style"] in ("near", "float") and shape <= 60 and len(c["pop"]) >= 2
              and max(c["pop"]) / min(c["pop"]) < 1e3}
        it["tabs"] = gamma_tables(h, it["shape"], it["rate"])
        if it["tabs"] is None:
            continue
        it["res"] = impl_gamma(h, it["shape"], it["rate"])
        it["res2"] = impl_gamma(h, it["shape"], it["rate"])          # SECOND call on the same object
        items.append(it)
    # invalid parameters are rejected
    c, o = valid[0]
    for bad in ((0.0, 1.0), (1.0, 0.0), (-1.0, 2.0)):
        if impl_gamma(o["obj"], *bad) != "assert":
            ctx.oracle_fail("gamma-invalid-accepted", "non-positive gamma parameters accepted", {"params": bad})
    if model_ok:
        model = model_gamma(ctx, items)
        for it, m in zip(items, model):
            r = it["res"]
            ok = (m is None) if isinstance(r, str) else (m is not None and K.close(r[0], m[0]) and K.close(r[1], m[1]))
            ctx.corr("gamma_to_natural", ok, "impl=%r model=%r" % (r, m),
                     replay={"case": {k: it[k] for k in ("pop", "brks", "shape", "rate")}, "impl": r, "model": m})
            r2 = it["res2"]
            ok2 = (m is None) if isinstance(r2, str) else (m is not None and K.close(r2[0], m[0]) and K.close(r2[1], m[1]))
            ctx.corr("gamma_to_natural (second call, same object)", ok2, "impl=%r model=%r" % (r2, m),
                     replay={"case": {k: it[k] for k in ("pop", "brks", "shape", "rate")}, "impl": r2, "model": m})
    for it in items:
        ctx.case({"gamma": True, "pop": it["pop"], "brks": it["brks"], "shape": it["shape"], "rate": it["rate"], "out": it["res"]},
                 nontrivial=True, kind="gamma/%s" % ("1-epoch" if len(it["pop"]) == 1 else ("quad" if it["quad"] else "multi")))
        oracle_gamma(ctx, it, it["res"], it["h"])
        if not (isinstance(it["res2"], str) and it["res2"] == it["res"]) and not \
                (not isinstance(it["res"], str) and not isinstance(it["res2"], str) and _same(it["res"], it["res2"])):
            ctx.oracle_fail("reuse:gamma-second-call", "the second gamma_to_natural call on the same object differs from the first",
                            {"case": {k: it[k] for k in ("pop", "brks", "shape", "rate")}, "first": it["res"], "second": it["res2"]})


def run(ctx, model_ok=True):
    cases, outs = history_block(ctx, model_ok, ctx.n(220, 2500), ctx.n(40, 300))
    gamma_block(ctx, model_ok, cases, outs, ctx.n(160, 1500), ctx.n(40, 300))


def search(ctx):
    for _ in range(ctx.n(3, 6)):
        cases, outs = history_block(ctx, False, 400, 60)
        gamma_block(ctx, False, cases, outs, 200, 60)
        if ctx.oracle_fails:
            return


def replay(ctx, data):
    case = (data.get("case") or {}).get("case")
    if not case:
        return True
    before = len(ctx.oracle_fails)
    if "shape" in case:
        h = build(case["pop"], case["brks"])
        it = dict(case, quad=len(case["pop"]) > 1)
        oracle_gamma(ctx, it, impl_gamma(h, case["shape"], case["rate"]), h)
    else:
        c = dict(case)
        c.setdefault("ts", [0.0, 1.0])
        c.setdefault("cs", [0.0, 1.0])
        c.setdefault("style", "replay")
        oracle_history(ctx, c, impl_all(c))
    return len(ctx.oracle_fails) == before
