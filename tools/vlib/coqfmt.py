"""Formatting Python values as Coq terms and parsing `Eval vm_compute` output back."""
import math
import re


def cfloat(x):
    x = float(x)
    if math.isnan(x):
        return "nan"
    if math.isinf(x):
        return "infinity" if x > 0 else "neg_infinity"
    if x == 0.0:
        return "(-0)%float" if math.copysign(1.0, x) < 0 else "0%float"
    h = x.hex()
    if h.startswith("-"):
        return "(-%s)%%float" % h[1:]
    return "(%s)%%float" % h


def cnat(n):
    return "%d%%nat" % int(n)


def cZ(n):
    n = int(n)
    return "(%d)%%Z" % n


def cQ(num, den=1):
    return "(%d # %d)%%Q" % (int(num), int(den))


def cbool(b):
    return "true" if b else "false"


def clist(xs, f=str):
    return "[" + "; ".join(f(x) for x in xs) + "]"


def cpair(a, b):
    return "(%s, %s)" % (a, b)


def copt(x, f=str):
    return "None" if x is None else "(Some %s)" % f(x)


# ---------------------------------------------------------------- parsing
_TOK = re.compile(r"\s*(\[|\]|\(|\)|;|,|[^\s\[\]\(\);,]+)")


def _tokens(s):
    pos = 0
    out = []
    while pos < len(s):
        m = _TOK.match(s, pos)
        if not m:
            break
        out.append(m.group(1))
        pos = m.end()
    return out


def _atom(tok):
    t = tok
    for suf in ("%float", "%Z", "%nat", "%N", "%Q", "%positive", "%uint63", "%R"):
        if t.endswith(suf):
            t = t[: -len(suf)]
    if t == "true":
        return True
    if t == "false":
        return False
    if t == "nan":
        return float("nan")
    if t == "infinity":
        return float("inf")
    if t == "neg_infinity":
        return float("-inf")
    if t == "None":
        return None
    if t == "tt":
        return ()
    try:
        return int(t)
    except ValueError:
        pass
    try:
        return float(t)
    except ValueError:
        pass
    return ("sym", t)


class _P:
    def __init__(self, toks):
        self.t = toks
        self.i = 0

    def peek(self):
        return self.t[self.i] if self.i < len(self.t) else None

    def next(self):
        tok = self.t[self.i]
        self.i += 1
        return tok

    def term(self):
        """application-level term: head args*  (Some x, inl x, a # b)"""
        head = self.simple()
        if isinstance(head, tuple) and head and head[0] == "sym":
            name = head[1]
            args = []
            while self.peek() not in (None, "]", ")", ";", ","):
                args.append(self.simple())
            if name == "Some" and len(args) == 1:
                return ("Some", args[0])
            if name in ("inl", "inr") and len(args) == 1:
                return (name, args[0])
            if args:
                return (name, *args)
            return head
        # rational  a # b
        if self.peek() == "#":
            self.next()
            den = self.simple()
            return ("Q", head, den)
        return head

    def simple(self):
        tok = self.next()
        if tok == "[":
            items = []
            if self.peek() == "]":
                self.next()
                return items
            while True:
                items.append(self.term())
                sep = self.next()
                if sep == "]":
                    return items
                assert sep == ";", sep
        if tok == "(":
            items = [self.term()]
            while True:
                sep = self.next()
                if sep == ")":
                    break
                assert sep == ",", sep
                items.append(self.term())
            nxt = self.peek()
            if nxt is not None and nxt.startswith("%"):
                self.next()
            if len(items) == 1:
                return items[0]
            # Coq prints nested left pairs (a, b, c) flat
            return tuple(items)
        return _atom(tok)


def parse_term(s):
    p = _P(_tokens(s))
    v = p.term()
    return v


_EVAL = re.compile(r"^\s+= (.*?)^\s+: ", re.S | re.M)


def parse_evals(out):
    """all `= term : type` blocks of a coqc run, parsed"""
    return [parse_term(m.group(1)) for m in _EVAL.finditer(out)]
