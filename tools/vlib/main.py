"""Entry point of every check:  ./check <ID> [--tier quick|thorough] [--replay file]

Protocol (DESIGN.md section 4):
  1. hygiene scan of the Coq development (no Admitted / Axiom / ...);
  2. (re)generate coq/gen/*.v from /repo when the property module asks for it;
  3. full .vo build of coq/props/<ID>.vo (and deps), `Print Assumptions` captured;
  4. the property module's run(ctx): correspondence model<->implementation on
     generated inputs and the property oracle on the implementation;
  5. verdict, VIOLATION / KNOWN-FINDING lines, evidence file.
"""
import argparse
import hashlib
import importlib
import json
import os
import random
import re
import subprocess
import sys
import time
import traceback

VERIF = os.path.abspath(os.path.join(os.path.dirname(__file__), "..", ".."))
REPO = os.environ.get("VERIF_REPO", "/repo")
COQ = os.path.join(VERIF, "coq")

FORBIDDEN = re.compile(
    r"\b(Admitted|admit|Axiom|Axioms|Parameter|Parameters|Conjecture|Conjectures|"
    r"Admit\s+Obligations|bypass_check|give_up)\b|Unset\s+Guard|Unset\s+Positivity|"
    r"Unset\s+Universe\s+Checking|type-in-type|impredicative-set|native_compute"
)


def strip_coq_comments(src):
    out = []
    depth = 0
    i = 0
    n = len(src)
    while i < n:
        if src.startswith("(*", i):
            depth += 1
            i += 2
        elif src.startswith("*)", i) and depth > 0:
            depth -= 1
            i += 2
        else:
            if depth == 0:
                out.append(src[i])
            i += 1
    return "".join(out)


def hygiene():
    """list of (file, token) for forbidden constructs anywhere in the development"""
    hits = []
    for root, _dirs, files in os.walk(COQ):
        for f in files:
            if not f.endswith(".v"):
                continue
            p = os.path.join(root, f)
            src = strip_coq_comments(open(p).read())
            for m in FORBIDDEN.finditer(src):
                hits.append((os.path.relpath(p, COQ), m.group(0)))
            # Variable/Hypothesis outside a section declare axioms too
            depth = 0
            for line in src.split("\n"):
                s = line.strip()
                if re.match(r"^(Section|Module)\s", s) and not re.match(r"^Module\s+(Import|Export)\s", s):
                    depth += 1
                elif re.match(r"^End\s", s):
                    depth -= 1
                elif depth <= 0 and re.match(r"^(Variable|Variables|Hypothesis|Hypotheses|Context)\b", s):
                    hits.append((os.path.relpath(p, COQ), "top-level " + s.split()[0]))
    return hits


class Ctx:
    def __init__(self, pid, tier, seed):
        self.pid = pid
        self.tier = tier
        self.seed = seed
        self.rng = random.Random(seed * 1000003 + int(hashlib.sha1(pid.encode()).hexdigest()[:8], 16))
        self.t0 = time.time()
        # one scratch directory per run (two runs of the same property may overlap)
        self.work = os.path.join(VERIF, ".work", "%s.%d" % (pid, os.getpid()))
        os.makedirs(self.work, exist_ok=True)
        self.evaluations = 0
        self.distinct = set()
        self.nontrivial = set()
        self.samples = []
        self.corr_cases = 0
        self.oracle_fails = []   # (sig, detail, replay)
        self.tie_fails = []      # (kind, name, detail)
        self.known_hits = []
        self.notes = {}
        self.dist = {}
        self.theorems = []
        self.assumptions = {}
        self.obligations = 0
        self.discharged = 0
        self.rule = ""
        self.assume = []
        self.checker_cmd = ""
        self.findings = load_findings()
        self._coq_n = 0

    # ---- sizes
    def n(self, quick, thorough):
        return quick if self.tier == "quick" else thorough

    # ---- bookkeeping of explored cases
    def case(self, case, nontrivial=True, kind=None):
        """count one explored case (any JSON-able description)"""
        self.evaluations += 1
        h = hashlib.sha1(json.dumps(case, sort_keys=True, default=str).encode()).hexdigest()
        self.distinct.add(h)
        if nontrivial:
            self.nontrivial.add(h)
        if len(self.samples) < 3:
            self.samples.append(case)
        if kind is not None:
            self.dist[kind] = self.dist.get(kind, 0) + 1

    def tally(self, key, k=1):
        self.dist[key] = self.dist.get(key, 0) + k

    # ---- failures
    def oracle_fail(self, sig, detail, replay=None):
        """the PROPERTY fails on the implementation for a concrete input"""
        for f in self.findings.get("open", []):
            if f["property"] == self.pid and re.search(f["signature"], sig):
                self.known_hits.append((f, sig))
                return
        self.oracle_fails.append((sig, detail, replay))

    def tie_fail(self, kind, name, detail, replay=None):
        """a proof / translation / correspondence no longer checks"""
        self.tie_fails.append((kind, name, detail, replay))

    def corr(self, name, ok, detail="", replay=None):
        """one model-vs-implementation comparison"""
        self.corr_cases += 1
        if not ok:
            self.tie_fail("correspondence", name, detail, replay)

    # ---- Coq
    def coq_eval(self, body, requires=("lib.Num",), tag="cases", timeout=600):
        """compile a generated .v (outside the development) and return parsed Evals"""
        from vlib.coqfmt import parse_evals
        self._coq_n += 1
        name = "%s_%s_%d" % (tag, self.pid, self._coq_n)
        path = os.path.join(self.work, name + ".v")
        hdr = "From Coq Require Import List ZArith QArith PrimFloat Bool.\nImport ListNotations.\n"
        hdr += "".join("From TsdateV Require Import %s.\n" % r for r in requires)
        with open(path, "w") as f:
            f.write(hdr + body)
        p = subprocess.run(
            ["timeout", str(timeout), "coqc", "-w", "-all", "-Q", COQ, "TsdateV", path],
            cwd=self.work, capture_output=True, text=True)
        for ext in (".vo", ".vok", ".vos", ".glob"):
            try:
                os.remove(os.path.join(self.work, name + ext))
            except OSError:
                pass
        if p.returncode != 0:
            raise CoqEvalError(p.stdout[-2000:] + p.stderr[-3000:])
        return parse_evals(p.stdout)


class CoqEvalError(Exception):
    pass


def load_findings():
    p = os.path.join(VERIF, "known_findings.json")
    if os.path.exists(p):
        return json.load(open(p))
    return {"open": [], "fixed": []}


def build_props(ctx, targets, regen=None):
    """build props/<ID>.vo; fills ctx.theorems / assumptions / obligations / discharged"""
    props_v = os.path.join(COQ, "props", ctx.pid + ".v")
    hits = hygiene()
    if hits:
        ctx.tie_fail("proof", "hygiene", "forbidden constructs: %r" % hits[:5])
    src = strip_coq_comments(open(props_v).read()) if os.path.exists(props_v) else ""
    ctx.theorems = re.findall(r"^\s*(?:Theorem|Corollary|Example)\s+([A-Za-z0-9_']+)", src, re.M)
    ctx.obligations = len(ctx.theorems)
    # force the property file itself to be re-checked on every run
    for ext in (".vo", ".vok", ".vos", ".glob"):
        try:
            os.remove(props_v[:-2] + ext)
        except OSError:
            pass
    cmd = [os.path.join(VERIF, "tools", "coqbuild.sh")] + targets
    ctx.checker_cmd = "tools/coqbuild.sh " + " ".join(targets) + "  (coq_makefile + make, full .vo, coqc 8.16.1)"
    p = subprocess.run(cmd, capture_output=True, text=True)
    out = p.stdout + p.stderr
    open(os.path.join(ctx.work, "coqbuild.log"), "w").write(out)
    if p.returncode != 0:
        m = re.search(r'File "([^"]+)", line (\d+)', out)
        where = "%s:%s" % (m.group(1), m.group(2)) if m else "?"
        err = out[-1500:]
        ctx.tie_fail("proof", "build " + where, err)
        ctx.discharged = 0
        return False
    ctx.discharged = ctx.obligations
    # Print Assumptions output of the props file
    log = out
    ax = set()
    blocks = re.split(r"\n(?=Closed under the global context|Axioms:)", log)
    for b in blocks:
        if b.startswith("Axioms:"):
            for line in b.split("\n")[1:]:
                m = re.match(r"^([A-Za-z_][A-Za-z0-9_.']*)\s*(:|$)", line)
                if m:
                    ax.add(m.group(1))
                elif line and not line.startswith(" "):
                    break
    ctx.assumptions = sorted(ax)
    n_pa = len(re.findall(r"Print Assumptions", src))
    ctx.notes["print_assumptions_commands"] = n_pa
    if ctx.tier == "thorough":
        vo = props_v[:-2] + ".vo"
        q = subprocess.run(["timeout", "1500", "coqchk", "-silent", "-o", "-Q", COQ, "TsdateV",
                            "TsdateV.props." + ctx.pid], capture_output=True, text=True, cwd=COQ)
        open(os.path.join(ctx.work, "coqchk.log"), "w").write(q.stdout + q.stderr)
        ctx.notes["coqchk_exit"] = q.returncode
        if q.returncode != 0:
            ctx.tie_fail("proof", "coqchk", (q.stdout + q.stderr)[-1500:])
        else:
            m = re.search(r"\* Axioms:(.*?)(\n\* |\Z)", q.stdout + q.stderr, re.S)
            if m:
                ctx.notes["coqchk_axioms"] = [l.strip() for l in m.group(1).strip().split("\n") if l.strip()]
    return True


def write_replay(ctx, idx, payload):
    d = os.path.join(VERIF, "replays", ctx.pid)
    os.makedirs(d, exist_ok=True)
    path = os.path.join(d, "%s_%d_%d.json" % (ctx.tier, ctx.seed, idx))
    with open(path, "w") as f:
        json.dump(payload, f, indent=1, default=str)
    return path


def write_evidence(ctx, level, violations):
    cov = {
        "obligations": ctx.obligations,
        "discharged": ctx.discharged,
        "checker_cmd": ctx.checker_cmd or "n/a",
        "trusted_base": ["Coq 8.16.1 kernel (coqc; vm_compute used; no native_compute)"]
        + ["axiom: " + a for a in ctx.assumptions]
        + ["correspondence harness tools/props/%s.py + tools/vlib" % ctx.pid.lower()]
        + ctx.assume,
        "theorems": ctx.theorems,
        "evaluations": ctx.evaluations,
        "distinct_nontrivial": len(ctx.nontrivial),
        "rule": ctx.rule,
        "samples": ctx.samples or ["(no generated case in this run)"],
        "traces_validated_against_impl": ctx.corr_cases,
        "programs": max(1, ctx.evaluations),
        "disagreements_checked": ctx.corr_cases + ctx.evaluations,
        "explanation": ctx.rule or "see rule",
        "input_distribution": ctx.dist,
        "tie_failures": [list(map(str, t[:3])) for t in ctx.tie_fails][:10],
        "known_findings_reproduced": [h[0].get("id", "?") for h in ctx.known_hits][:50],
        "notes": ctx.notes,
    }
    if ctx.discharged < 1 or ctx.obligations < 1:
        # a run whose proofs did not build makes no proof-level coverage claim: report the counts under
        # other names so that the evidence is judged by its exploration counts
        cov["obligations_total"] = cov.pop("obligations")
        cov["discharged_total"] = cov.pop("discharged")
    ev = {
        "property_id": ctx.pid,
        "tier": ctx.tier,
        "seed": ctx.seed,
        "level": level,
        "coverage": cov,
        "assumptions": ctx.assume,
        "wall_s": round(time.time() - ctx.t0, 2),
        "violations": violations,
    }
    # evidence/ holds runs against /repo only; a run against a scratch worktree (VERIF_REPO=...)
    # writes its evidence next to the other scratch files
    evdir = os.path.join(VERIF, "evidence") if os.path.realpath(REPO) == os.path.realpath("/repo") \
        else os.path.join(VERIF, ".work", "evidence_other_repo")
    os.makedirs(evdir, exist_ok=True)
    with open(os.path.join(evdir, ctx.pid + ".json"), "w") as f:
        json.dump(ev, f, indent=1, default=str)


def main():
    ap = argparse.ArgumentParser()
    ap.add_argument("pid")
    ap.add_argument("--tier", default=os.environ.get("VERIF_TIER") or "quick")
    ap.add_argument("--replay")
    a = ap.parse_args()
    pid = a.pid.upper()
    tier = a.tier if a.tier in ("quick", "thorough") else "quick"
    try:
        seed = int(os.environ.get("VERIF_SEED", "0"))
    except ValueError:
        seed = 0
    sys.path.insert(0, os.path.join(VERIF, "tools"))
    mod = importlib.import_module("props." + pid.lower())
    env = dict(getattr(mod, "ENV", {}))
    env.update(getattr(mod, "ENV_BY_TIER", {}).get(tier, {}))
    for k, v in env.items():
        os.environ[k] = v
    ctx = Ctx(pid, tier, seed)
    ctx.rule = getattr(mod, "RULE", "")
    ctx.assume = list(getattr(mod, "ASSUME", []))
    level = getattr(mod, "LEVEL", "proof")

    if a.replay:
        data = json.load(open(a.replay))
        if hasattr(mod, "replay"):
            ok = mod.replay(ctx, data)
            print("replay:", "property holds on this case" if ok else "property FAILS on this case")
            sys.exit(0 if ok else 1)
        print(json.dumps(data, indent=1)[:4000])
        sys.exit(0)

    # 2. regenerate translated text
    if hasattr(mod, "regen"):
        try:
            mod.regen(ctx)
        except Exception as e:  # fail closed
            ctx.tie_fail("translator", type(e).__name__, str(e)[:1500])
    # 3. proofs
    targets = getattr(mod, "COQ_TARGETS", ["props/%s.vo" % pid])
    built = False
    if not any(t[0] == "translator" for t in ctx.tie_fails):
        built = build_props(ctx, targets)
    else:
        # the theorems exist but could not be re-checked against the regenerated text
        props_v = os.path.join(COQ, "props", pid + ".v")
        if os.path.exists(props_v):
            src = strip_coq_comments(open(props_v).read())
            ctx.theorems = re.findall(r"^\s*(?:Theorem|Corollary|Example)\s+([A-Za-z0-9_']+)", src, re.M)
            ctx.obligations = len(ctx.theorems)
    # 4/5. correspondence + oracle
    try:
        mod.run(ctx, model_ok=built)
    except CoqEvalError as e:
        ctx.tie_fail("correspondence", "coq-eval", str(e)[-1500:])
    except Exception:
        ctx.tie_fail("harness", "exception", traceback.format_exc()[-2500:])
    # extended search when only a tie broke
    if ctx.tie_fails and not ctx.oracle_fails and hasattr(mod, "search"):
        try:
            mod.search(ctx)
        except Exception:
            ctx.notes["search_error"] = traceback.format_exc()[-1500:]

    # 6. verdict
    rc = 0
    nviol = 0
    seen = set()
    for f, sig in ctx.known_hits:
        key = f.get("id", f["signature"])
        if key in seen:
            continue
        seen.add(key)
        print("KNOWN-FINDING: property=%s %s [%s]" % (pid, f["what"], key))
    if ctx.oracle_fails:
        sig, detail, rp = ctx.oracle_fails[0]
        path = write_replay(ctx, 0, {
            "property": pid, "kind": "failing-input", "signature": sig, "detail": detail, "case": rp,
            "other_failures": [s for s, _d, _r in ctx.oracle_fails[1:20]],
            "broken_ties": [list(map(str, t[:3])) for t in ctx.tie_fails][:10]})
        print("VIOLATION property=%s replay=%s" % (pid, path))
        nviol = len(ctx.oracle_fails)
        rc = 1
    elif ctx.tie_fails:
        kind, name, detail, rp = ctx.tie_fails[0]
        path = write_replay(ctx, 0, {
            "property": pid, "kind": "no-failing-input-found",
            "no_longer_checks": {"kind": kind, "name": name, "detail": detail},
            "case": rp,
            "all_broken": [list(map(str, t[:3])) for t in ctx.tie_fails][:20]})
        print("VIOLATION property=%s replay=%s no-failing-input-found" % (pid, path))
        nviol = 1
        rc = 1
    write_evidence(ctx, level, nviol)
    if rc == 0 and not os.environ.get("VERIF_KEEP_WORK"):
        import shutil
        shutil.rmtree(ctx.work, ignore_errors=True)
    else:
        # keep the scratch files of a failing run next to the replay, bounded
        keep = os.path.join(VERIF, ".work", pid + ".last_failure")
        import shutil
        shutil.rmtree(keep, ignore_errors=True)
        try:
            os.rename(ctx.work, keep)
        except OSError:
            pass
    print("check %s tier=%s seed=%d: %s  (theorems %d/%d, corr %d, cases %d, distinct-nontrivial %d, %.1fs)" % (
        pid, tier, seed, "OK" if rc == 0 else "FAILED", ctx.discharged, ctx.obligations,
        ctx.corr_cases, ctx.evaluations, len(ctx.nontrivial), time.time() - ctx.t0))
    sys.exit(rc)


if __name__ == "__main__":
    main()
