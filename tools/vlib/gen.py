"""Input generators. Every random choice derives from the rng handed in (one PRNG per run).
Tree sequences have integer genomic coordinates."""
import numpy as np


def _seed(rng):
    return rng.randrange(1, 2**31 - 1)


def sim_ts(rng, n=None, L=None, rec=None, mu=None, ploidy=1, multimerger=None,
           historical=None, pop_size=1.0):
    """small msprime tree sequence with mutations; integer coordinates"""
    import msprime
    n = n if n is not None else rng.randint(2, 7)
    L = L if L is not None else rng.choice([1, 5, 20, 100, 1000])
    if rec is None:
        rec = rng.choice([0.0, 0.0, 0.5, 2.0, 10.0]) / max(L, 1)
    if mu is None:
        mu = rng.choice([0.3, 1.0, 3.0, 10.0]) / max(L, 1)
    if multimerger is None:
        multimerger = rng.random() < 0.25
    if historical is None:
        historical = rng.random() < 0.25
    model = None
    if multimerger:
        model = msprime.BetaCoalescent(alpha=1.0 + rng.random() * 0.9) if rng.random() < 0.5 \
            else msprime.DiracCoalescent(psi=0.1 + 0.8 * rng.random(), c=1 + 10 * rng.random())
    if historical and n >= 2:
        k = rng.randint(1, n - 1)
        samples = [msprime.SampleSet(n - k, time=0, ploidy=ploidy),
                   msprime.SampleSet(k, time=round(rng.random() * 2.0 + 0.01, 3), ploidy=ploidy)]
    else:
        samples = [msprime.SampleSet(n, time=0, ploidy=ploidy)]
    ts = msprime.sim_ancestry(samples=samples, sequence_length=L, recombination_rate=rec,
                              random_seed=_seed(rng), population_size=pop_size, model=model,
                              ploidy=ploidy)
    ts = msprime.sim_mutations(ts, rate=mu, random_seed=_seed(rng))
    return ts


def internal_samples(rng, ts, k=1):
    """mark k internal (non-root where possible) nodes as samples: samples with children"""
    import tskit
    tables = ts.dump_tables()
    flags = tables.nodes.flags.copy()
    internal = [u for u in range(ts.num_nodes) if not (flags[u] & tskit.NODE_IS_SAMPLE)]
    rng.shuffle(internal)
    for u in internal[:k]:
        flags[u] |= tskit.NODE_IS_SAMPLE
    tables.nodes.flags = flags
    return tables.tree_sequence()


def extra_flags(rng, ts, frac=0.5):
    """set flag bits other than NODE_IS_SAMPLE on some nodes (tskit allows any uint32; e.g.
    tsinfer's NODE_IS_HISTORICAL_SAMPLE = 1<<20, tsdate's NODE_SPLIT_BY_PREPROCESS = 1<<21)"""
    tables = ts.dump_tables()
    flags = tables.nodes.flags.copy()
    for u in range(ts.num_nodes):
        if rng.random() < frac:
            flags[u] |= rng.choice([1 << 20, 1 << 21, 1 << 16, 2, (1 << 20) | 4])
    tables.nodes.flags = flags
    return tables.tree_sequence()


def permute_nodes(rng, ts):
    """renumber ALL nodes at random (samples no longer ids 0..n-1); same genealogy"""
    import numpy as np
    tables = ts.dump_tables()
    perm = list(range(ts.num_nodes))
    rng.shuffle(perm)
    tables.subset(np.array(perm, dtype=np.int32), record_provenance=False,
                  reorder_populations=False, remove_unreferenced=False)
    tables.sort()
    tables.build_index()
    tables.compute_mutation_parents()
    return tables.tree_sequence()


def unary_chain_ts(rng, ts):
    """put a chain of unary nodes ABOVE the top coalescence of one local tree: pick a tree B and a node a
    that is absent from B and older than B's root, add a new node u between them and the edges
    root_B -> u -> a over B's interval.  u is unary wherever it appears, a is unary in B and an ordinary
    node elsewhere.  Returns None when the input offers no such (B, a).  Needs allow_unary=True."""
    import tskit
    cands = []
    for tree in ts.trees():
        if tree.num_roots != 1:
            continue
        r = tree.root
        present = set(tree.nodes())
        for a in range(ts.num_nodes):
            if a not in present and ts.nodes_time[a] > ts.nodes_time[r] and not (ts.nodes_flags[a] & tskit.NODE_IS_SAMPLE):
                cands.append((tree.interval.left, tree.interval.right, r, a))
    if not cands:
        return None
    left, right, r, a = rng.choice(cands)
    tables = ts.dump_tables()
    chain = rng.randint(1, 2)
    lo, hi = ts.nodes_time[r], ts.nodes_time[a]
    prev = r
    for k in range(chain):
        u = tables.nodes.add_row(flags=0, time=lo + (hi - lo) * (k + 1) / (chain + 1))
        tables.edges.add_row(left, right, u, prev)
        prev = u
    tables.edges.add_row(left, right, a, prev)
    tables.sort()
    tables.build_index()
    tables.compute_mutation_parents()
    return tables.tree_sequence()


def add_root_mutations(rng, ts, k=None):
    """add k mutations ABOVE THE ROOT of the local tree (on the root node, i.e. on no edge) at fresh
    integer positions; valid tskit input that simulators never produce"""
    import tskit
    k = k if k is not None else rng.randint(1, 3)
    used = set(float(x) for x in ts.sites_position)
    free = [x for x in range(int(ts.sequence_length)) if float(x) not in used]
    rng.shuffle(free)
    tables = ts.dump_tables()
    added = 0
    for x in free:
        tree = ts.at(float(x))
        if tree.num_roots != 1 or tree.num_edges == 0:
            continue
        s = tables.sites.add_row(position=float(x), ancestral_state="0")
        tables.mutations.add_row(site=s, node=tree.root, derived_state="1", time=tskit.UNKNOWN_TIME)
        added += 1
        if added >= k:
            break
    tables.sort()
    tables.build_index()
    tables.compute_mutation_parents()
    return tables.tree_sequence()


def detach_sample(rng, ts, k=1):
    """missing data: make k samples isolated over an interior interval (their edges are clipped there), then
    simplify, so that local trees differ in the number of attached sample tips.  Returns None when the genome is
    too short.  Mutations above a detached sample inside its interval are dropped."""
    import numpy as np
    L = int(ts.sequence_length)
    if L < 3 or ts.num_samples < 3:
        return None
    tables = ts.dump_tables()
    samples = list(ts.samples())
    rng.shuffle(samples)
    for s in samples[:k]:
        a = rng.randint(0, L - 2)
        b = rng.randint(a + 1, L - 1) if rng.random() < 0.7 else L
        edges = tables.edges.copy()
        tables.edges.clear()
        for e in edges:
            if e.child == s and e.left < b and e.right > a:
                if e.left < a:
                    tables.edges.add_row(e.left, a, e.parent, e.child)
                if e.right > b:
                    tables.edges.add_row(b, e.right, e.parent, e.child)
            else:
                tables.edges.add_row(e.left, e.right, e.parent, e.child)
        keep = np.array([not (m.node == s and a <= tables.sites[m.site].position < b) for m in tables.mutations], dtype=bool)
        if not keep.all():
            tables.mutations.keep_rows(keep)
    tables.sort()
    tables.build_index()
    tables.compute_mutation_parents()
    tables.simplify(samples=np.array(sorted(ts.samples()), dtype=np.int32), filter_sites=False)
    if tables.edges.num_rows == 0:
        return None
    return tables.tree_sequence()


EXOTIC_KINDS = ("extra_flags", "permute_nodes", "root_mutations", "monomorphic_sites", "unknown_mutation_times",
                "states", "populations")


def exotic(rng, ts, kinds=None, p=0.3):
    """Valid-but-unusual decorations that simulators never produce and that must not matter to (or must be
    handled by) the code under test; each kind is applied with probability p.  kinds restricts the set.
    Returns (ts, applied_kinds).  None of them changes the genealogy, the sample set or the mutations' (position,
    node) pairs except root_mutations (adds mutations above local roots) and permute_nodes (renumbers nodes)."""
    import tskit
    import numpy as np
    applied = []
    for kind in (kinds or EXOTIC_KINDS):
        if rng.random() >= p:
            continue
        if kind == "extra_flags":
            ts = extra_flags(rng, ts)
        elif kind == "permute_nodes":
            if ts.num_migrations:
                continue
            ts = permute_nodes(rng, ts)
        elif kind == "root_mutations":
            ts = add_root_mutations(rng, ts)
        elif kind == "monomorphic_sites":
            t = ts.dump_tables()
            used = set(float(x) for x in t.sites.position)
            free = [x for x in range(int(ts.sequence_length)) if float(x) not in used]
            rng.shuffle(free)
            surplus = t.mutations.num_rows - t.sites.num_rows
            k = surplus if (surplus > 0 and rng.random() < 0.5) else rng.randint(1, 3)
            for x in free[:k]:
                t.sites.add_row(position=float(x), ancestral_state="N")
            t.sort(); t.build_index(); t.compute_mutation_parents()
            ts = t.tree_sequence()
        elif kind == "unknown_mutation_times":
            t = ts.dump_tables()
            t.mutations.time = np.full(t.mutations.num_rows, tskit.UNKNOWN_TIME)
            ts = t.tree_sequence()
        elif kind == "states":
            t = ts.dump_tables()
            t.sites.packset_ancestral_state([rng.choice(["A", "C", "", "xyz"]) for _ in range(t.sites.num_rows)])
            t.mutations.packset_derived_state([rng.choice(["G", "T", "1", "long-allele"]) for _ in range(t.mutations.num_rows)])
            ts = t.tree_sequence()
        elif kind == "populations":
            t = ts.dump_tables()
            t.populations.clear()
            t.populations.metadata_schema = tskit.MetadataSchema.permissive_json()
            kpop = rng.randint(1, 3)
            for i in range(kpop):
                t.populations.add_row(metadata={"name": "p%d" % i, "description": None})
            t.nodes.population = np.array([rng.randrange(kpop) for _ in range(t.nodes.num_rows)], dtype=np.int32)
            ts = t.tree_sequence()
        applied.append(kind)
    return ts, applied


def random_times(rng, ts, style=None):
    """arbitrary 'unconstrained' time vector for the nodes of ts"""
    n = ts.num_nodes
    style = style or rng.choice(["noise", "ties", "reverse", "big", "tiny", "valid", "zero"])
    t = np.array(ts.nodes_time, dtype=float)
    if style == "noise":
        t = t + np.array([rng.gauss(0, 1.0) for _ in range(n)])
        t = np.abs(t)
    elif style == "ties":
        t = np.array([float(rng.randint(0, 3)) for _ in range(n)])
    elif style == "reverse":
        t = t.max() - t
    elif style == "big":
        t = t * 10.0 ** rng.randint(6, 12) + np.array([rng.random() for _ in range(n)])
    elif style == "tiny":
        t = t * 10.0 ** (-rng.randint(6, 12))
    elif style == "zero":
        t = np.zeros(n)
    samples = ts.samples()
    if rng.random() < 0.7:
        t[samples] = ts.nodes_time[samples]
    return t, style


def ts_summary(ts):
    return {"nodes": int(ts.num_nodes), "edges": int(ts.num_edges), "trees": int(ts.num_trees),
            "muts": int(ts.num_mutations), "samples": int(ts.num_samples)}


def ts_tables_dict(ts):
    """plain-list description of a tree sequence (for replay files)"""
    return {
        "L": float(ts.sequence_length),
        "nodes_time": [float(x) for x in ts.nodes_time],
        "nodes_flags": [int(x) for x in ts.nodes_flags],
        "nodes_individual": [int(x) for x in ts.nodes_individual],
        "edges": [[float(e.left), float(e.right), int(e.parent), int(e.child)] for e in ts.edges()],
        "sites": [float(s.position) for s in ts.sites()],
        "mutations": [[int(m.site), int(m.node)] for m in ts.mutations()],
    }


def ts_from_dict(d):
    import tskit
    tables = tskit.TableCollection(d["L"])
    inds = set(i for i in d.get("nodes_individual", []) if i >= 0)
    for _ in range(max(inds) + 1 if inds else 0):
        tables.individuals.add_row()
    for i, (t, f) in enumerate(zip(d["nodes_time"], d["nodes_flags"])):
        ind = d["nodes_individual"][i] if "nodes_individual" in d else -1
        tables.nodes.add_row(flags=f, time=t, individual=ind)
    for l, r, p, c in d["edges"]:
        tables.edges.add_row(l, r, p, c)
    for x in d["sites"]:
        tables.sites.add_row(x, "0")
    for s, u in d["mutations"]:
        tables.mutations.add_row(site=s, node=u, derived_state="1")
    tables.sort()
    tables.build_index()
    tables.compute_mutation_parents()
    return tables.tree_sequence()
