#!/venv/bin/python
"""Fail-closed Python-`ast` -> Gallina translator for the straight-line numerics of
tsdate/approx.py and tsdate/hypergeo.py.

    tools/translate.py [--repo /repo] [--out coq/gen]

writes  <out>/HypergeoGen.v  and  <out>/ApproxGen.v  (and <out>/GenEq.v, the
`reflexivity` comparison with the frozen copies coq/model/HypergeoFrozen.v /
ApproxFrozen.v).  It is run by the property modules' `regen(ctx)` on every check, so the
theorems of coq/proofs/Approx*.v are re-checked against what the source says NOW.

What is accepted (anything else raises `Reject`, which the driver reports as a broken tie):

  module level   imports (recorded: which names are math.*, which alias is numpy / hypergeo),
                 class definitions of the two exception types, constant assignments, and
                 function definitions that are listed in TRANSLATE or in SKIP below
                 (an unlisted function is rejected: somebody has to decide).
  statements     docstring, `x = e`, `a, b = e`, `x op= e`, `assert c`, `if c: ... [elif/else]`,
                 `return e`, `raise KLMinimizationFailedError(..)`, nested `def`, `pass`,
                 `while c: ...` (fuelled, see below).
  expressions    names, int/float literals (kept EXACT: numerator/denominator, plus the
                 binary64 value Python parsed, used only by the float instance),
                 + - * /, unary -, `** k` and `np.power(x, k)` for a literal integer k >= 1,
                 comparisons (chained ones become conjunctions), and/or/not,
                 `a if c else b`, tuples, calls to:  exp log lgamma sqrt log1p expm1 (math), np.log np.exp np.log1p np.expm1
                 np.sqrt np.tan np.sin np.abs abs np.isfinite np.isinf np.isclose np.array
                 np.full(2, np.nan) min, translated functions of the same module and
                 `hypergeo.<translated function>`;  constants nan inf pi np.nan np.inf np.pi
                 np.euler_gamma.

Semantics fixed by the translator (the "reading" that is trusted, DESIGN.md section 6):

  * NaN is tracked STATICALLY.  `x = e if c else nan` splits the rest of the function in two
    worlds; in the NaN world every arithmetic expression containing x is NaN, every
    comparison with it is False (`!=` True), `np.isfinite` is False, and a call of a
    translated predicate is evaluated by re-translating the predicate with that parameter
    NaN (it must reduce to a constant, else Reject).  A `return` whose first component is
    statically NaN becomes the constructor `Nan` ("skip").  Dynamic NaN (inf - inf, ...)
    exists only in the float instance, where PrimFloat produces it by itself.
  * `assert c` becomes  `if c then .. else Err EAssert`  (the assertions are part of the
    model, not dropped) and is LISTED in the generated file; `raise` becomes `Err EKLFail`.
  * result types: see ApproxBase.v (plain / exc / nanv / exc (nanv _)), inferred.
  * a self-recursive function gets a fuel argument (`Err EFuel` when exhausted) -- the amount
    is in FUEL below.
  * `while c: body` becomes a structurally recursive local function over the tuple of
    variables assigned in the body, with FUEL_LOOP iterations (`Err EFuel` beyond); when a
    loop-carried variable is statically +inf on entry the first iteration is peeled.
  * `hyp2f1 = hypergeo._hyp2f1_laplace` is an alias, not a value.
"""
import ast
import decimal
import hashlib
import os
import sys

HERE = os.path.dirname(os.path.abspath(__file__))
VERIF = os.path.abspath(os.path.join(HERE, ".."))


class Reject(Exception):
    pass


COQ_RESERVED = set("""as at cofix else end exists exists2 fix for forall fun if IF in let match mod
Prop return Set then Type using where with by N__ F__ H__ fuel__ e__ Ok Err Val Nan true false
Some None""".split())

# ------------------------------------------------------------------ configuration
# functions translated, per module, in source order is NOT required: order = dependency order
TRANSLATE = {
    "hypergeo": ["_digamma", "_trigamma", "_betaln", "_hyperu_laplace", "_hyp1f1_laplace",
                 "_hyp2f1_laplace"],
    "approx": [
        "approximate_log_moments", "approximate_gamma_kl", "approximate_gamma_mom", "approximate_gamma_iqr",
        "_valid_moments", "_valid_gamma", "_valid_hyp1f1", "_valid_hyperu", "_valid_hyp2f1",
        "moments", "rootward_moments", "leafward_moments", "unphased_moments", "twin_moments",
        "sideways_moments", "mutation_moments", "mutation_rootward_moments",
        "mutation_leafward_moments", "mutation_unphased_moments", "mutation_twin_moments",
        "mutation_sideways_moments", "mutation_edge_moments", "mutation_block_moments",
        "gamma_projection", "leafward_projection", "rootward_projection", "unphased_projection",
        "twin_projection", "sideways_projection", "mutation_gamma_projection",
        "mutation_leafward_projection", "mutation_rootward_projection",
        "mutation_edge_projection", "mutation_unphased_projection", "mutation_twin_projection",
        "mutation_sideways_projection", "mutation_block_projection",
    ],
}
# functions deliberately NOT translated (loops over arrays / scipy bindings): hand-modelled or external
SKIP = {
    "hypergeo": {"_gammainc_inv": "scipy binding (gammaincinv); external function",
                 "_gammainc_der": "AS 239 series/continued-fraction loops; external function"},
    "approx": {"average_gammas": "loop over arrays; not part of C18/C19/C06"},
}
FUEL = {"_digamma": "fuel_rec", "_trigamma": "fuel_rec"}     # constants of ApproxBase.v
# functions of hypergeo.py that are NOT translated but called from translated code: fields of the record
# ApproxBase.ExtFns (arbitrary functions in the theorems, recorded values in the float instance).
#   name -> (number of arguments, may raise)
EXTERNAL = {"_gammainc_inv": (2, False), "_gammainc_der": (2, True)}
FUEL_LOOP = "fuel_loop"  # ApproxBase.v: 103; the loops raise at itt > 100
ALLOWED_CLASSES = {"KLMinimizationFailedError", "Invalid2F1"}
EXC_TAGS = {"KLMinimizationFailedError": "EKLFail"}
# module constants the translated functions may read: name -> (accepted defining source, value)
MODULE_CONSTS = {
    "_KLMIN_MAXITT": ("100", ("int", 100)),
    # sqrt(2^-52) = 2^-26 exactly
    "_KLMIN_RELTOL": ("np.sqrt(np.finfo(np.float64).eps)", ("frac", 1, 67108864, (2.0 ** -26))),
}


# ------------------------------------------------------------------ types and values
def ty_coq(ty, top=True):
    if ty == "T":
        return "T N__"
    if ty == "bool":
        return "bool"
    assert ty[0] == "tup"
    s = " * ".join(ty_coq(t, False) for t in ty[1])
    return "(" + s + ")"


def pat(names):
    if isinstance(names, str):
        return names
    return "(" + ", ".join(names) + ")"


class Fn:
    def __init__(self, pyname, coqname, params):
        self.pyname = pyname
        self.coqname = coqname
        self.params = params
        self.ptys = None
        self.rty = None
        self.can_nan = False
        self.can_raise = False
        self.is_bool = False
        self.ir = None
        self.node = None
        self.fuel = None
        self.local = False      # nested def
        self.external = None    # module name when reached through the H__ record
        self.uses = set()
        self.asserts = []
        self.lines = (0, 0)

    def rtype_coq(self):
        if self.is_bool:
            return "bool"
        t = ty_coq(self.rty)
        if self.rty == "T" and (self.can_nan or self.can_raise):
            t = "(%s)" % t
        if self.can_nan:
            t = "nanv %s" % t
        if self.can_raise:
            t = "exc (%s)" % t if self.can_nan else "exc %s" % t
        return t


NAN = ("nan",)


def is_nan(v):
    return v == NAN


def contains_nan(v):
    if v == NAN:
        return True
    if v[0] == "tup":
        return any(contains_nan(x) for x in v[1])
    return False


# ------------------------------------------------------------------ the translator
class ModuleTranslator:
    def __init__(self, modname, path, externals=None):
        self.modname = modname
        self.path = path
        self.src = open(path).read()
        self.sha = hashlib.sha256(self.src.encode()).hexdigest()
        self.tree = ast.parse(self.src)
        self.externals = externals or {}       # alias -> ModuleTranslator
        self.fns = {}                          # pyname -> Fn (translated, in order)
        self.order = []
        self.math_names = set()
        self.np_alias = None
        self.ext_alias = {}
        self.defs = {}
        self.consts = {}
        self.tmp = 0
        self.ext_fns = {}
        self.gen_names = set()
        self.spec_cache = {}
        self.cur = None
        self.loops = []
        self.scan()

    # ---- errors
    def rej(self, node, msg):
        raise Reject("tsdate/%s.py:%s: outside the translator's grammar: %s" % (
            self.modname, getattr(node, "lineno", "?"), msg))

    # ---- module level
    def scan(self):
        want = set(TRANSLATE[self.modname])
        skip = SKIP[self.modname]
        for st in self.tree.body:
            if isinstance(st, ast.Expr) and isinstance(st.value, ast.Constant) and isinstance(st.value.value, str):
                continue
            if isinstance(st, ast.ImportFrom):
                if st.module == "math" and st.level == 0:
                    for a in st.names:
                        if a.asname and a.asname != a.name:
                            self.rej(st, "renaming import from math")
                        self.math_names.add(a.name)
                elif st.level == 1 and st.module is None:
                    for a in st.names:
                        if a.name in self.externals:
                            self.ext_alias[a.asname or a.name] = self.externals[a.name]
                continue
            if isinstance(st, ast.Import):
                for a in st.names:
                    if a.name == "numpy":
                        self.np_alias = a.asname or "numpy"
                continue
            if isinstance(st, ast.ClassDef):
                if st.name not in ALLOWED_CLASSES:
                    self.rej(st, "class %s" % st.name)
                continue
            if isinstance(st, ast.FunctionDef):
                if st.name in want:
                    self.defs[st.name] = st
                elif st.name in skip:
                    pass
                else:
                    self.rej(st, "function %s is neither in TRANSLATE nor in SKIP of tools/translate.py" % st.name)
                continue
            if isinstance(st, ast.Assign) and len(st.targets) == 1 and isinstance(st.targets[0], ast.Name):
                name = st.targets[0].id
                if name in MODULE_CONSTS:
                    text = ast.get_source_segment(self.src, st.value)
                    if " ".join(text.split()) != MODULE_CONSTS[name][0]:
                        self.rej(st, "module constant %s redefined as %r" % (name, text))
                    self.consts[name] = MODULE_CONSTS[name][1]
                continue
            # anything else at module level (decorated bindings, ctypes plumbing) is not code we model
            if isinstance(st, (ast.Assign, ast.AnnAssign)):
                continue
            self.rej(st, "module-level statement %s" % type(st).__name__)
        missing = want - set(self.defs)
        if missing:
            raise Reject("tsdate/%s.py: function(s) %s listed in TRANSLATE no longer exist" % (
                self.modname, sorted(missing)))

    def translate_all(self):
        for name in TRANSLATE[self.modname]:
            self.translate_function(self.defs[name])
        return self

    # ---- names
    def coqname(self, pyname):
        n = pyname.lstrip("_")
        if n in COQ_RESERVED or not n:
            raise Reject("identifier %r clashes with a Coq keyword" % pyname)
        return n

    def fresh(self, base="tmp"):
        self.tmp += 1
        n = "%s%d__" % (base, self.tmp)
        self.gen_names.add(n)
        return n

    def check_ident(self, node, name):
        if name in self.gen_names:
            return name
        if name in COQ_RESERVED or name.endswith("__"):
            self.rej(node, "identifier %r is reserved" % name)
        return name

    # ---- literals
    def lit_float(self, node):
        text = ast.get_source_segment(self.src, node)
        try:
            d = decimal.Decimal(text.replace("_", ""))
        except decimal.InvalidOperation:
            self.rej(node, "float literal %r" % text)
        if float(text) != node.value:
            self.rej(node, "float literal %r does not round-trip" % text)
        sign, digits, e = d.as_tuple()
        if sign:
            self.rej(node, "negative literal")
        m = int("".join(map(str, digits)))
        while e < 0 and m % 10 == 0 and m != 0:
            m //= 10
            e += 1
        if m == 0:
            num, den = 0, 1
        elif e >= 0:
            num, den = m * 10 ** e, 1
        else:
            num, den = m, 10 ** (-e)
        return self.lit_code(num, den, node.value)

    def lit_code(self, num, den, val):
        self.cur.uses.add("lit")
        h = "0%float" if val == 0.0 else "%s%%float" % float(val).hex()
        return "(f_lit N__ F__ (%d)%%Z (%d)%%Z %s)" % (num, den, h)

    # ---- resolution of callables
    def resolve(self, f, env):
        """-> ('fn', Fn) | ('math', name) | ('np', name) | ('builtin', name) | None"""
        if isinstance(f, ast.Name):
            if f.id in env:
                v = env[f.id]
                if v[0] == "fn":
                    return v
                if v[0] == "alias":
                    return v[1]
                return None
            if f.id in self.fns:
                return ("fn", self.fns[f.id])
            if self.cur is not None and f.id == self.cur.pyname and self.cur.fuel:
                return ("fn", self.cur)
            if f.id in self.math_names:
                return ("math", f.id)
            if f.id in ("abs", "min"):
                return ("builtin", f.id)
            return None
        if isinstance(f, ast.Attribute) and isinstance(f.value, ast.Name):
            base = f.value.id
            if base in env:
                return None
            if base == self.np_alias:
                return ("np", f.attr)
            if base in self.ext_alias:
                ext = self.ext_alias[base]
                if f.attr in ext.fns:
                    fn = ext.fns[f.attr]
                    return ("fn", fn)
                if f.attr in EXTERNAL and f.attr in SKIP[ext.modname]:
                    if f.attr not in self.ext_fns:
                        nargs, raises = EXTERNAL[f.attr]
                        e = Fn(f.attr, f.attr.lstrip("_"), ["x%d" % i for i in range(nargs)])
                        e.ptys = ["T"] * nargs
                        e.rty = "T"
                        e.can_raise = raises
                        e.external = "E"
                        self.ext_fns[f.attr] = e
                    return ("fn", self.ext_fns[f.attr])
                return None
        return None

    # ---- expressions
    def scalar(self, node, v):
        if v == NAN:
            return v
        if v[0] == "v" and v[2] == "T":
            return v
        self.rej(node, "a number is expected here")

    def tobool(self, node, v):
        if v[0] in ("sb", "b"):
            return v
        self.rej(node, "a boolean is expected here")

    def ev(self, node, env):
        m = getattr(self, "ev_" + type(node).__name__, None)
        if m is None:
            self.rej(node, "expression %s" % type(node).__name__)
        return m(node, env)

    def ev_Constant(self, node, env):
        v = node.value
        if isinstance(v, bool):
            return ("sb", v)
        if isinstance(v, int):
            return ("v", "(Num.ofZ N__ (%d)%%Z)" % v, "T")
        if isinstance(v, float):
            return ("v", self.lit_float(node), "T")
        self.rej(node, "constant %r" % (v,))

    def ev_Name(self, node, env):
        if node.id in env:
            v = env[node.id]
            if v[0] in ("fn", "alias"):
                self.rej(node, "function used as a value")
            return v
        if node.id in self.math_names:
            if node.id == "nan":
                return NAN
            if node.id == "inf":
                return ("inf",)
            if node.id == "pi":
                self.cur.uses.add("pi")
                return ("v", "(f_pi N__ F__)", "T")
        if node.id in self.consts:
            c = self.consts[node.id]
            if c[0] == "int":
                return ("v", "(Num.ofZ N__ (%d)%%Z)" % c[1], "T")
            return ("v", self.lit_code(c[1], c[2], c[3]), "T")
        self.rej(node, "unknown name %r" % node.id)

    def ev_Attribute(self, node, env):
        if isinstance(node.value, ast.Name) and node.value.id == self.np_alias and node.value.id not in env:
            if node.attr == "nan":
                return NAN
            if node.attr == "inf":
                return ("inf",)
            if node.attr == "pi":
                self.cur.uses.add("pi")
                return ("v", "(f_pi N__ F__)", "T")
            if node.attr == "euler_gamma":
                self.cur.uses.add("euler_gamma")
                return ("v", "(f_euler_gamma N__ F__)", "T")
        self.rej(node, "attribute %s" % ast.unparse(node))

    def ev_Tuple(self, node, env):
        return ("tup", [self.ev(e, env) for e in node.elts])

    def ev_UnaryOp(self, node, env):
        if isinstance(node.op, ast.Not):
            v = self.tobool(node, self.ev(node.operand, env))
            if v[0] == "sb":
                return ("sb", not v[1])
            return ("b", "(negb %s)" % v[1])
        if isinstance(node.op, ast.USub):
            v = self.scalar(node, self.ev(node.operand, env))
            if v == NAN:
                return NAN
            return ("v", "(Num.neg N__ %s)" % v[1], "T")
        self.rej(node, "unary operator")

    BIN = {ast.Add: "Num.add", ast.Sub: "Num.sub", ast.Mult: "Num.mul", ast.Div: "Num.div"}

    def ev_BinOp(self, node, env):
        if isinstance(node.op, ast.Pow):
            return self.power(node, node.left, node.right, env)
        op = self.BIN.get(type(node.op))
        if op is None:
            self.rej(node, "operator %s" % type(node.op).__name__)
        a = self.scalar(node, self.ev(node.left, env))
        b = self.scalar(node, self.ev(node.right, env))
        if a == NAN or b == NAN:
            return NAN
        return ("v", "(%s N__ %s %s)" % (op, a[1], b[1]), "T")

    def power(self, node, base, expo, env):
        if not (isinstance(expo, ast.Constant) and type(expo.value) is int and 1 <= expo.value <= 16):
            self.rej(node, "power with an exponent that is not a literal integer in 1..16")
        a = self.scalar(node, self.ev(base, env))
        if a == NAN:
            return NAN
        if expo.value == 1:
            return a
        return ("v", "(pw N__ %s %d%%nat)" % (a[1], expo.value), "T")

    CMP = {ast.Lt: "Num.ltb N__ %s %s", ast.LtE: "Num.leb N__ %s %s", ast.Gt: "gtb N__ %s %s",
           ast.GtE: "geb N__ %s %s", ast.Eq: "Num.eqb N__ %s %s", ast.NotEq: "neqb N__ %s %s"}

    def ev_Compare(self, node, env):
        vals = [self.ev(e, env) for e in [node.left] + node.comparators]
        vals = [v if v == ("inf",) else self.scalar(node, v) for v in vals]
        parts = []
        for i, op in enumerate(node.ops):
            t = self.CMP.get(type(op))
            if t is None:
                self.rej(node, "comparison %s" % type(op).__name__)
            a, b = vals[i], vals[i + 1]
            if a == ("inf",) or b == ("inf",):
                # only  +inf > x  /  x < +inf :  x is finite or -inf  (NaN and +inf fail)
                x = b if a == ("inf",) else a
                ok = (a == ("inf",) and isinstance(op, ast.Gt)) or (b == ("inf",) and isinstance(op, ast.Lt))
                if not ok or x == ("inf",):
                    self.rej(node, "comparison with inf other than inf > x")
                if x == NAN:
                    parts.append(("sb", False))
                else:
                    self.cur.uses |= {"isfinite", "isinf"}
                    parts.append(("b", "(orb (f_isfinite N__ F__ %s) (andb (f_isinf N__ F__ %s) (Num.ltb N__ %s (Num.zero N__))))"
                                  % (x[1], x[1], x[1])))
            elif a == NAN or b == NAN:
                parts.append(("sb", isinstance(op, ast.NotEq)))
            else:
                parts.append(("b", "(" + t % (a[1], b[1]) + ")"))
        return self.conj(parts, True)

    def conj(self, parts, is_and):
        """and / or of boolean values with static folding (no side effects anywhere)"""
        dyn = []
        for p in parts:
            if p[0] == "sb":
                if p[1] != is_and:        # False in an and / True in an or
                    return ("sb", not is_and)
            else:
                dyn.append(p[1])
        if not dyn:
            return ("sb", is_and)
        code = dyn[0]
        for d in dyn[1:]:
            code = "(%s %s %s)" % ("andb" if is_and else "orb", code, d)
        return ("b", code)

    def ev_BoolOp(self, node, env):
        parts = [self.tobool(node, self.ev(e, env)) for e in node.values]
        return self.conj(parts, isinstance(node.op, ast.And))

    def ev_IfExp(self, node, env):
        c = self.tobool(node, self.ev(node.test, env))
        a = self.ev(node.body, env)
        b = self.ev(node.orelse, env)
        if c[0] == "sb":
            return a if c[1] else b
        if a == NAN and b == NAN:
            return NAN
        if a == NAN or b == NAN:
            return ("ifnan", c[1], a, b)
        if a[0] in ("sb", "b") and b[0] in ("sb", "b"):
            ac = a[1] if a[0] == "b" else ("true" if a[1] else "false")
            bc = b[1] if b[0] == "b" else ("true" if b[1] else "false")
            return ("b", "(if %s then %s else %s)" % (c[1], ac, bc))
        a = self.scalar(node, a)
        b = self.scalar(node, b)
        return ("v", "(if %s then %s else %s)" % (c[1], a[1], b[1]), "T")

    MATH1 = {"exp": "f_exp", "log": "f_log", "lgamma": "f_lgamma", "sqrt": "f_sqrt", "log1p": "f_log1p", "expm1": "f_expm1"}
    NP1 = {"exp": "f_exp", "log": "f_log", "sqrt": "f_sqrt", "tan": "f_tan", "sin": "f_sin", "log1p": "f_log1p",
           "expm1": "f_expm1"}

    def ev_Call(self, node, env):
        if node.keywords:
            self.rej(node, "keyword arguments")
        r = self.resolve(node.func, env)
        if r is None:
            self.rej(node, "call of %s" % ast.unparse(node.func))
        kind, what = r
        args = node.args
        if kind == "math" or (kind == "np" and what in self.NP1):
            field = (self.MATH1 if kind == "math" else self.NP1).get(what)
            if field is None or len(args) != 1:
                self.rej(node, "call of %s" % ast.unparse(node.func))
            a = self.scalar(node, self.ev(args[0], env))
            if a == NAN:
                return NAN
            self.cur.uses.add(field[2:])
            return ("v", "(%s N__ F__ %s)" % (field, a[1]), "T")
        if (kind == "np" and what == "abs") or (kind == "builtin" and what == "abs"):
            if len(args) != 1:
                self.rej(node, "abs arity")
            a = self.ev(args[0], env)
            if a == ("inf",):
                return a
            a = self.scalar(node, a)
            if a == NAN:
                return NAN
            return ("v", "(absN N__ %s)" % a[1], "T")
        if kind == "builtin" and what == "min":
            if len(args) != 2:
                self.rej(node, "min arity")
            a = self.scalar(node, self.ev(args[0], env))
            b = self.scalar(node, self.ev(args[1], env))
            if a == NAN or b == NAN:
                self.rej(node, "min of NaN")
            return ("v", "(minN N__ %s %s)" % (a[1], b[1]), "T")
        if kind == "np":
            if what == "power" and len(args) == 2:
                return self.power(node, args[0], args[1], env)
            if what in ("isfinite", "isinf") and len(args) == 1:
                a = self.ev(args[0], env)
                if a == ("inf",):
                    return ("sb", what == "isinf")
                a = self.scalar(node, a)
                if a == NAN:
                    return ("sb", False)
                self.cur.uses.add(what)
                return ("b", "(f_%s N__ F__ %s)" % (what, a[1]))
            if what == "isclose" and len(args) == 2:
                a = self.scalar(node, self.ev(args[0], env))
                b = self.scalar(node, self.ev(args[1], env))
                if a == NAN or b == NAN:
                    return ("sb", False)
                self.cur.uses.add("lit")
                return ("b", "(isclose N__ F__ %s %s)" % (a[1], b[1]))
            if what == "array" and len(args) == 1:
                a = self.ev(args[0], env)
                if a[0] == "tup" or (a[0] == "v" and a[2] != "T"):
                    return a
                self.rej(node, "np.array of a non-tuple")
            if what == "full" and len(args) == 2:
                n = args[0]
                if isinstance(n, ast.Constant) and type(n.value) is int and 1 <= n.value <= 4:
                    a = self.ev(args[1], env)
                    if a == NAN:
                        return ("tup", [NAN] * n.value)
                self.rej(node, "np.full other than np.full(k, np.nan)")
            self.rej(node, "call of np.%s" % what)
        if kind == "fn":
            fn = what
            if len(args) != len(fn.params):
                self.rej(node, "arity of %s" % fn.pyname)
            avals = [self.ev(a, env) for a in args]
            if any(contains_nan(a) for a in avals):
                return self.call_with_nan(node, fn, avals)
            if fn.can_nan or fn.can_raise:
                self.rej(node, "call of the partial function %s in a nested position" % fn.pyname)
            return ("b" if fn.is_bool else "v", self.call_code(node, fn, avals), fn.rty)
        self.rej(node, "call")

    def call_code(self, node, fn, avals):
        codes = []
        for a, t in zip(avals, fn.ptys):
            c = self.value_code(node, a)
            if self.value_type(node, a) != t:
                self.rej(node, "argument type mismatch in the call of %s" % fn.pyname)
            codes.append(c)
        if fn.local:
            head = fn.coqname
        elif fn.external == "E":
            head = "(e_%s N__ E__)" % fn.coqname
            self.cur.uses.add("E")
        elif fn.external and fn.external != self.modname:
            head = "(h_%s N__ H__)" % fn.coqname
            self.cur.uses.add("H")
        elif fn is self.cur:
            head = "%s_rec N__ F__ fuel__" % fn.coqname
        else:
            head = "%s N__ F__%s%s" % (fn.coqname, " H__" if self.externals else "", " E__" if "E" in fn.uses else "")
            self.cur.uses |= fn.uses
        return "(%s %s)" % (head, " ".join(codes))

    def call_with_nan(self, node, fn, avals):
        """static evaluation of  fn(.., NaN, ..): re-translate fn's body with those parameters NaN"""
        if fn.local or fn.node is None or (fn.external and fn.external != self.modname):
            self.rej(node, "NaN passed to %s" % fn.pyname)
        mask = tuple(a == NAN for a in avals)
        if any(contains_nan(a) and a != NAN for a in avals):
            self.rej(node, "partly-NaN tuple passed to %s" % fn.pyname)
        key = (fn.pyname, mask)
        if key not in self.spec_cache:
            saved = (self.cur, self.tmp)
            sub = Fn(fn.pyname, fn.coqname, fn.params)
            self.cur = sub
            env = {}
            for p, isn in zip(fn.params, mask):
                env[p] = NAN if isn else ("v", "arg_%s__" % p, "T")
            ir = self.block(list(fn.node.body), env)
            self.cur, self.tmp = saved
            self.spec_cache[key] = ir
        ir = self.collapse(self.spec_cache[key])
        if ir is None:
            self.rej(node, "%s applied to NaN does not reduce to a constant" % fn.pyname)
        if ir[0] == "ret" and ir[1][0] == "sb":
            return ir[1]
        if ir[0] == "retnan":
            return NAN if not (fn.rty and fn.rty[0] == "tup") else ("tup", [NAN] * len(fn.rty[1]))
        self.rej(node, "%s applied to NaN does not reduce to a constant" % fn.pyname)

    def value_code(self, node, v):
        if v[0] == "v":
            return v[1]
        if v[0] == "b":
            return v[1]
        if v[0] == "sb":
            return "true" if v[1] else "false"
        if v[0] == "tup":
            return "(" + ", ".join(self.value_code(node, x) for x in v[1]) + ")"
        self.rej(node, "value without a run-time representation (NaN / inf / function)")

    def value_type(self, node, v):
        if v[0] == "v":
            return v[2]
        if v[0] in ("b", "sb"):
            return "bool"
        if v[0] == "tup":
            return ("tup", [self.value_type(node, x) for x in v[1]])
        self.rej(node, "value without a type")

    # ---- hoisting of partial calls out of expressions (A-normal form on the AST)
    def hoist(self, expr, env, out, root_ok):
        """replace calls of partial functions nested in `expr` by fresh names; assignments of
        the fresh names are appended to `out` (inner first).  Boolean operators, conditional
        expressions and comparisons are not entered (a partial call there is rejected later)."""
        if isinstance(expr, ast.Call):
            r = self.resolve(expr.func, env)
            expr.args = [self.hoist(a, env, out, False) for a in expr.args]
            if r is not None and r[0] == "fn" and (r[1].can_nan or r[1].can_raise) and not root_ok:
                name = self.fresh("call")
                out.append(ast.copy_location(ast.Assign(
                    targets=[ast.Name(id=name, ctx=ast.Store())], value=expr, lineno=expr.lineno), expr))
                return ast.copy_location(ast.Name(id=name, ctx=ast.Load()), expr)
            return expr
        if isinstance(expr, ast.BinOp):
            expr.left = self.hoist(expr.left, env, out, False)
            expr.right = self.hoist(expr.right, env, out, False)
            return expr
        if isinstance(expr, ast.UnaryOp) and isinstance(expr.op, ast.USub):
            expr.operand = self.hoist(expr.operand, env, out, False)
            return expr
        if isinstance(expr, ast.Tuple):
            expr.elts = [self.hoist(e, env, out, False) for e in expr.elts]
            return expr
        return expr

    # ---- statements
    def block(self, stmts, env):
        """IR of a statement list (which must end in return/raise on every path)"""
        if not stmts:
            raise Reject("tsdate/%s.py: function %s can fall off its end" % (self.modname, self.cur.pyname))
        st, rest = stmts[0], stmts[1:]
        if isinstance(st, ast.Expr) and isinstance(st.value, ast.Constant) and isinstance(st.value.value, str):
            return self.block(rest, env)
        if isinstance(st, ast.Pass):
            return self.block(rest, env)
        m = getattr(self, "st_" + type(st).__name__, None)
        if m is None:
            self.rej(st, "statement %s" % type(st).__name__)
        return m(st, rest, env)

    def with_hoists(self, st, field, rest, env, root_ok):
        import copy
        st2 = copy.deepcopy(st)
        out = []
        setattr(st2, field, self.hoist(getattr(st2, field), env, out, root_ok))
        if out:
            return out + [st2]
        return None

    def st_Assert(self, st, rest, env):
        c = self.tobool(st, self.ev(st.test, env))
        text = " ".join(ast.get_source_segment(self.src, st.test).split())
        note = "%s.py:%d  assert %s" % (self.modname, st.lineno, text)
        if note not in self.cur.asserts:
            self.cur.asserts.append(note)
        if c[0] == "sb":
            return self.block(rest, env) if c[1] else ("raise", "EAssert")
        return self.mkif(c[1], self.block(rest, env), ("raise", "EAssert"))

    def st_Raise(self, st, rest, env):
        e = st.exc
        name = None
        if isinstance(e, ast.Call) and isinstance(e.func, ast.Name):
            name = e.func.id
        elif isinstance(e, ast.Name):
            name = e.id
        if name not in EXC_TAGS:
            self.rej(st, "raise of %s" % ast.unparse(e) if e else "bare raise")
        return ("raise", EXC_TAGS[name])

    def st_Return(self, st, rest, env):
        if st.value is None:
            self.rej(st, "bare return")
        h = self.with_hoists(st, "value", rest, env, False)
        if h:
            return self.block(h, env)
        v = self.ev(st.value, env)
        if v[0] == "tup" and len(v[1]) == 1:
            self.rej(st, "1-tuple")
        if v == NAN or (v[0] == "tup" and v[1][0] == NAN):
            return ("retnan",)
        if contains_nan(v):
            self.rej(st, "return of a tuple whose first component is a number and a later one NaN")
        if v[0] in ("sb", "b"):
            return ("ret", v, "bool")
        if v[0] in ("inf", "ifnan"):
            self.rej(st, "return of inf / conditional NaN")
        return ("ret", v, self.value_type(st, v))

    def bind(self, st, name, v, rest, env):
        """x = v  then rest"""
        self.check_ident(st, name)
        env = dict(env)
        if v[0] == "ifnan":
            _, c, a, b = v
            return self.mkif(c, self.bind(st, name, a, rest, env), self.bind(st, name, b, rest, env))
        if v == NAN or v == ("inf",):
            env[name] = v
            return self.block(rest, env)
        if v[0] == "tup" and contains_nan(v):
            if all(x == NAN for x in v[1]):
                env[name] = v
                return self.block(rest, env)
            self.rej(st, "partly-NaN tuple bound to a name")
        if v[0] in ("sb", "b"):
            self.rej(st, "boolean variable")
        ty = self.value_type(st, v)
        code = self.value_code(st, v)
        env[name] = ("v", name, ty)
        return ("let", name, code, self.block(rest, env))

    def st_Assign(self, st, rest, env):
        if len(st.targets) != 1:
            self.rej(st, "chained assignment")
        tgt = st.targets[0]
        # alias of a function
        if isinstance(tgt, ast.Name) and isinstance(st.value, (ast.Name, ast.Attribute)):
            r = self.resolve(st.value, env)
            if r is not None and r[0] == "fn":
                env = dict(env)
                env[tgt.id] = ("alias", r)
                return self.block(rest, env)
        # call of a partial function as the whole right-hand side
        if isinstance(st.value, ast.Call):
            r = self.resolve(st.value.func, env)
            if r is not None and r[0] == "fn" and (r[1].can_nan or r[1].can_raise):
                h = self.with_hoists(st, "value", rest, env, True)
                if h:
                    return self.block(h + rest, env)
                return self.partial_call(st, tgt, r[1], rest, env)
        h = self.with_hoists(st, "value", rest, env, False)
        if h:
            return self.block(h + rest, env)
        v = self.ev(st.value, env)
        if isinstance(tgt, ast.Name):
            return self.bind(st, tgt.id, v, rest, env)
        if isinstance(tgt, ast.Tuple) and all(isinstance(e, ast.Name) for e in tgt.elts):
            names = [self.check_ident(st, e.id) for e in tgt.elts]
            if len(set(names)) != len(names):
                self.rej(st, "repeated name in a tuple target")
            if v[0] == "tup":
                if len(v[1]) != len(names):
                    self.rej(st, "tuple arity")
                used = {n.id for n in ast.walk(st.value) if isinstance(n, ast.Name)}
                if used & set(names):
                    self.rej(st, "simultaneous assignment that reads its own targets")
                # sequential binding of independent components
                def seq(i, env):
                    if i == len(names):
                        return self.block(rest, env)
                    vi = v[1][i]
                    return self.bind_k(st, names[i], vi, env, lambda e2: seq(i + 1, e2))
                return seq(0, env)
            if v[0] == "v" and v[2] != "T" and v[2][0] == "tup" and len(v[2][1]) == len(names):
                env = dict(env)
                for n, t in zip(names, v[2][1]):
                    env[n] = ("v", n, t)
                return ("lettuple", names, v[1], self.block(rest, env))
            self.rej(st, "tuple assignment from a non-tuple")
        self.rej(st, "assignment target %s" % type(tgt).__name__)

    def bind_k(self, st, name, v, env, k):
        env = dict(env)
        if v == NAN:
            env[name] = NAN
            return k(env)
        if v[0] != "v":
            self.rej(st, "component of a tuple assignment")
        env[name] = ("v", name, v[2])
        return ("let", name, v[1], k(env))

    def partial_call(self, st, tgt, fn, rest, env):
        avals = [self.ev(a, env) for a in st.value.args]
        if st.value.keywords or len(avals) != len(fn.params):
            self.rej(st, "arity of %s" % fn.pyname)
        if any(contains_nan(a) for a in avals):
            v = self.call_with_nan(st, fn, avals)
            if isinstance(tgt, ast.Name):
                return self.bind(st, tgt.id, v, rest, env)
            self.rej(st, "NaN call assigned to a tuple")
        code = self.call_code(st, fn, avals)
        if isinstance(tgt, ast.Name):
            names = self.check_ident(st, tgt.id)
            tys = fn.rty
            env_ok = dict(env)
            env_ok[names] = ("v", names, tys)
            env_nan = dict(env)
            if tys == "T":
                env_nan[names] = NAN
            else:
                env_nan[names] = ("tup", [NAN] * len(tys[1]))
        elif isinstance(tgt, ast.Tuple) and all(isinstance(e, ast.Name) for e in tgt.elts):
            names = [self.check_ident(st, e.id) for e in tgt.elts]
            if fn.rty == "T" or fn.rty[0] != "tup" or len(fn.rty[1]) != len(names) or len(set(names)) != len(names):
                self.rej(st, "tuple arity of the result of %s" % fn.pyname)
            env_ok = dict(env)
            env_nan = dict(env)
            for n, t in zip(names, fn.rty[1]):
                env_ok[n] = ("v", n, t)
                env_nan[n] = NAN if t == "T" else ("tup", [NAN] * len(t[1]))
        else:
            self.rej(st, "assignment target")
        k = self.block(rest, env_ok)
        knan = self.block(rest, env_nan) if fn.can_nan else None
        return ("call", (fn.can_nan, fn.can_raise), code, names, k, knan)

    AUG = {ast.Add: "Num.add", ast.Sub: "Num.sub", ast.Mult: "Num.mul", ast.Div: "Num.div"}

    def st_AugAssign(self, st, rest, env):
        if not isinstance(st.target, ast.Name) or type(st.op) not in self.AUG:
            self.rej(st, "augmented assignment")
        new = ast.copy_location(ast.Assign(
            targets=[ast.Name(id=st.target.id, ctx=ast.Store())],
            value=ast.copy_location(ast.BinOp(left=ast.Name(id=st.target.id, ctx=ast.Load()), op=st.op,
                                              right=st.value), st),
            lineno=st.lineno), st)
        ast.fix_missing_locations(new)
        return self.block([new] + rest, env)

    def st_If(self, st, rest, env):
        c = self.tobool(st, self.ev(st.test, env))
        if c[0] == "sb":
            return self.block((st.body if c[1] else st.orelse) + rest, env)
        return self.mkif(c[1], self.block(st.body + rest, env), self.block(st.orelse + rest, env))

    def mkif(self, c, a, b):
        """conditional; two identical constant leaves are merged (conditions have no effects)"""
        if a == b and a[0] in ("retnan", "raise") or (a == b and a[0] == "ret" and a[1][0] == "sb"):
            return a
        return ("if", c, a, b)

    def collapse(self, ir):
        """the constant leaf every path of `ir` ends in, when `ir` has only lets and ifs"""
        k = ir[0]
        if k in ("retnan", "raise") or (k == "ret" and ir[1][0] == "sb"):
            return ir
        if k in ("let", "lettuple"):
            return self.collapse(ir[3])
        if k == "if":
            a, b = self.collapse(ir[2]), self.collapse(ir[3])
            return a if a is not None and a == b else None
        return None

    def st_FunctionDef(self, st, rest, env):
        fn = self.make_fn(st, env, local=True)
        env = dict(env)
        env[st.name] = ("fn", fn)
        return ("letfun", fn, self.block(rest, env))

    # ---- while loops
    def st_While(self, st, rest, env):
        if st.orelse:
            self.rej(st, "while/else")
        for n in ast.walk(st):
            if isinstance(n, (ast.Break, ast.Continue, ast.Return)):
                self.rej(n, "%s inside a while loop" % type(n).__name__)
        # names assigned in the body
        assigned = []
        for n in ast.walk(ast.Module(body=st.body, type_ignores=[])):
            if isinstance(n, (ast.Assign, ast.AugAssign)):
                tg = n.targets if isinstance(n, ast.Assign) else [n.target]
                for t in tg:
                    for e in ([t] if isinstance(t, ast.Name) else getattr(t, "elts", [])):
                        if not isinstance(e, ast.Name):
                            self.rej(n, "assignment target inside a loop")
                        if e.id not in assigned:
                            assigned.append(e.id)
            if isinstance(n, (ast.FunctionDef, ast.While)):
                self.rej(n, "nested loop / def inside a loop")
        # loop-carried = assigned in the body AND (read by the test, read in the body before being written
        # in the same iteration, or read after the loop); the other assigned names are temporaries of one
        # iteration (if such a name were read after the loop it would simply be unknown there: rejected)
        def loads(node):
            return {m.id for m in ast.walk(node) if isinstance(m, ast.Name) and isinstance(m.ctx, ast.Load)}

        def exposed(stmts, written):
            """names read before written in a statement list; returns (exposed, written afterwards)"""
            exp = set()
            written = set(written)
            for x in stmts:
                if isinstance(x, ast.Assign):
                    exp |= loads(x.value) - written
                    for t in x.targets:
                        written |= {e.id for e in ([t] if isinstance(t, ast.Name) else t.elts)}
                elif isinstance(x, ast.AugAssign):
                    exp |= (loads(x.value) | {x.target.id}) - written
                    written.add(x.target.id)
                elif isinstance(x, ast.If):
                    exp |= loads(x.test) - written
                    e1, w1 = exposed(x.body, written)
                    e2, w2 = exposed(x.orelse, written)
                    exp |= e1 | e2
                    written = w1 & w2
                else:
                    exp |= loads(x) - written
            return exp, written
        live = loads(st.test) | exposed(st.body, set())[0]
        for x in rest:
            live |= loads(x)
        carried = [v for v in assigned if v in live]
        for v in carried:
            if v not in env:
                self.rej(st, "loop variable %r is not initialised before the loop" % v)
        # peel while a carried variable is not an ordinary number
        if any(env[v][0] != "v" or env[v][2] != "T" for v in carried):
            if getattr(st, "_peeled", 0) >= 1:
                self.rej(st, "loop-carried variable is not a number after peeling one iteration")
            import copy
            again = copy.deepcopy(st)
            again._peeled = getattr(st, "_peeled", 0) + 1
            first = ast.copy_location(ast.If(test=copy.deepcopy(st.test),
                                             body=copy.deepcopy(st.body) + [again], orelse=[]), st)
            return self.block([first] + rest, env)
        loop = Fn("loop", self.fresh("loop"), list(carried))
        loop.ptys = ["T"] * len(carried)
        loop.local = True
        loop.can_raise = True
        loop.rty = ("tup", ["T"] * len(carried)) if len(carried) > 1 else "T"
        lenv = dict(env)
        for v in carried:
            lenv[v] = ("v", v, "T")
        c = self.tobool(st, self.ev(st.test, lenv))
        if c[0] == "sb":
            self.rej(st, "loop test is a constant")
        state = "(" + ", ".join(carried) + ")" if len(carried) > 1 else carried[0]
        # body, then the recursive call
        marker = ast.copy_location(ast.Expr(value=ast.Constant(value=Ellipsis)), st)
        self._loopstack = getattr(self, "_loopstack", []) + [(loop, carried)]
        body_ir = self.block(list(st.body) + [marker], lenv)
        self._loopstack.pop()
        loop_ir = ("if", c[1], body_ir, ("loopexit", state))
        k = self.block(rest, lenv)
        return ("loop", loop, carried, loop_ir, k)

    def st_Expr(self, st, rest, env):
        if isinstance(st.value, ast.Constant) and st.value.value is Ellipsis and getattr(self, "_loopstack", None):
            loop, carried = self._loopstack[-1]
            codes = []
            for v in carried:
                x = env[v]
                if x[0] != "v" or x[2] != "T":
                    self.rej(st, "loop-carried variable %r is not a number at the end of the body" % v)
                codes.append(x[1])
            return ("loopnext", loop, codes)
        self.rej(st, "expression statement")

    # ---- functions
    def make_fn(self, node, outer_env, local):
        a = node.args
        if a.vararg or a.kwarg or a.kwonlyargs or a.defaults or a.posonlyargs:
            self.rej(node, "argument list of %s" % node.name)
        params = [self.check_ident(node, x.arg) for x in a.args]
        fn = Fn(node.name, self.coqname(node.name) if not local else node.name.lstrip("_") + "__", params)
        fn.local = local
        fn.node = node
        fn.external = self.modname
        fn.lines = (node.lineno, node.end_lineno)
        if node.name in FUEL and not local:
            fn.fuel = FUEL[node.name]
            fn.can_raise = True
        # parameter types: a parameter that is unpacked by `a, b = p` is a tuple
        ptys = {}
        for n in ast.walk(node):
            if isinstance(n, ast.Assign) and isinstance(n.value, ast.Name) and n.value.id in params \
                    and isinstance(n.targets[0], ast.Tuple):
                ptys[n.value.id] = ("tup", ["T"] * len(n.targets[0].elts))
        fn.ptys = [ptys.get(p, "T") for p in params]
        saved = self.cur
        if local:
            fn.uses = saved.uses
            fn.asserts = saved.asserts
        self.cur = fn
        env = dict(outer_env)
        for p, t in zip(params, fn.ptys):
            env[p] = ("v", p, t)
        if fn.fuel:
            fn.rty = "T"           # needed for the recursive calls; checked below
        ir = self.block(list(node.body), env)
        self.cur = saved
        fn.ir = ir
        self.finish(fn, node)
        return fn

    def leaves(self, ir):
        k = ir[0]
        if k in ("ret", "retnan", "raise", "loopexit", "loopnext"):
            yield ir
        elif k == "let" or k == "lettuple":
            yield from self.leaves(ir[3])
        elif k == "letfun":
            yield from self.leaves(ir[2])
        elif k == "if":
            yield from self.leaves(ir[2])
            yield from self.leaves(ir[3])
        elif k == "call":
            yield ("callflags",) + ir[1]
            yield from self.leaves(ir[4])
            if ir[5] is not None:
                yield from self.leaves(ir[5])
        elif k == "loop":
            yield ("callflags", False, True)
            yield from (l for l in self.leaves(ir[3]) if l[0] not in ("loopexit", "loopnext"))
            yield from self.leaves(ir[4])
        else:
            raise AssertionError(k)

    def finish(self, fn, node):
        rtys = set()
        bools = 0
        can_nan = False
        can_raise = bool(fn.fuel)
        for l in self.leaves(fn.ir):
            if l[0] == "ret":
                t = l[2]
                rtys.add(repr(t))
                fn.rty = t
                if t == "bool":
                    bools += 1
            elif l[0] == "retnan":
                can_nan = True
            elif l[0] == "raise":
                can_raise = True
            elif l[0] == "callflags":
                can_raise = can_raise or l[2]
        if len(rtys) > 1:
            self.rej(node, "function %s returns values of different shapes %s" % (fn.pyname, sorted(rtys)))
        if not rtys:
            self.rej(node, "function %s never returns a value" % fn.pyname)
        fn.is_bool = bools > 0
        if fn.is_bool and (can_nan or can_raise):
            self.rej(node, "predicate %s can fail" % fn.pyname)
        if fn.fuel and can_nan:
            self.rej(node, "recursive function %s returns NaN" % fn.pyname)
        fn.can_nan, fn.can_raise = can_nan, can_raise

    def translate_function(self, node):
        fn = self.make_fn(node, {}, local=False)
        self.fns[node.name] = fn
        self.order.append(fn)
        return fn

    # ---- emission
    def wrap_ret(self, fn, code):
        if fn.can_nan:
            code = "Val %s" % code
        if fn.can_raise:
            code = "Ok (%s)" % code if fn.can_nan else "Ok %s" % code
        return code

    def emit(self, ir, fn, ind):
        sp = "  " * ind
        k = ir[0]
        if k == "ret":
            v = ir[1]
            code = self.value_code(fn.node, v)
            return [sp + self.wrap_ret(fn, code)]
        if k == "retnan":
            return [sp + ("Ok Nan" if fn.can_raise else "Nan")]
        if k == "raise":
            return [sp + "Err %s" % ir[1]]
        if k == "let":
            return [sp + "let %s := %s in" % (ir[1], ir[2])] + self.emit(ir[3], fn, ind)
        if k == "lettuple":
            return [sp + "let '%s := %s in" % (pat(ir[1]), ir[2])] + self.emit(ir[3], fn, ind)
        if k == "letfun":
            f = ir[1]
            hdr = sp + "let %s := fun %s =>" % (f.coqname, " ".join(
                "(%s : %s)" % (p, ty_coq(t)) for p, t in zip(f.params, f.ptys)))
            return [hdr] + self.emit(f.ir, f, ind + 2) + [sp + "in"] + self.emit(ir[2], fn, ind)
        if k == "if":
            return ([sp + "if %s then" % ir[1]] + self.emit(ir[2], fn, ind + 1) +
                    [sp + "else"] + self.emit(ir[3], fn, ind))
        if k == "call":
            (cn, cr), code, names, kk, knan = ir[1], ir[2], ir[3], ir[4], ir[5]
            p = pat(names)
            if not cn and not cr:
                raise AssertionError("plain call in partial position")
            out = [sp + "match %s with" % code]
            if cr:
                out.append(sp + "| Err e__ => Err e__")
            okpat = ("Ok (Val %s)" if cn else "Ok %s") % p if cr else "Val %s" % p
            out.append(sp + "| %s =>" % okpat)
            out += self.emit(kk, fn, ind + 2)
            if cn:
                out.append(sp + "| %s =>" % ("Ok Nan" if cr else "Nan"))
                out += self.emit(knan, fn, ind + 2)
            out.append(sp + "end")
            return out
        if k == "loop":
            loop, carried, loop_ir, kk = ir[1], ir[2], ir[3], ir[4]
            state_ty = ty_coq(loop.rty)
            out = [sp + "let %s := fix %s (fuel__ : nat) %s {struct fuel__} : exc %s :=" % (
                loop.coqname, loop.coqname, " ".join("(%s : T N__)" % v for v in carried), state_ty)]
            out.append(sp + "    match fuel__ with O => Err EFuel | S fuel__ =>")
            out += self.emit_loop(loop_ir, fn, loop, ind + 3)
            out.append(sp + "    end in")
            out.append(sp + "match %s %s %s with" % (loop.coqname, FUEL_LOOP, " ".join(carried)))
            out.append(sp + "| Err e__ => Err e__")
            out.append(sp + "| Ok %s =>" % pat(carried))
            out += self.emit(kk, fn, ind + 2)
            out.append(sp + "end")
            return out
        raise AssertionError(k)

    def emit_loop(self, ir, fn, loop, ind):
        """body of a loop: same as emit, but leaves are the recursive call / exit"""
        sp = "  " * ind
        k = ir[0]
        if k == "loopexit":
            return [sp + "Ok %s" % ir[1]]
        if k == "loopnext":
            return [sp + "%s fuel__ %s" % (loop.coqname, " ".join(ir[2]))]
        if k == "raise":
            return [sp + "Err %s" % ir[1]]
        if k == "let":
            return [sp + "let %s := %s in" % (ir[1], ir[2])] + self.emit_loop(ir[3], fn, loop, ind)
        if k == "lettuple":
            return [sp + "let '%s := %s in" % (pat(ir[1]), ir[2])] + self.emit_loop(ir[3], fn, loop, ind)
        if k == "if":
            return ([sp + "if %s then" % ir[1]] + self.emit_loop(ir[2], fn, loop, ind + 1) +
                    [sp + "else"] + self.emit_loop(ir[3], fn, loop, ind))
        if k == "call":
            (cn, cr), code, names, kk, knan = ir[1], ir[2], ir[3], ir[4], ir[5]
            if cn:
                self.rej(fn.node, "NaN-returning call inside a loop")
            out = [sp + "match %s with" % code, sp + "| Err e__ => Err e__", sp + "| Ok %s =>" % pat(names)]
            out += self.emit_loop(kk, fn, loop, ind + 2)
            out.append(sp + "end")
            return out
        self.rej(fn.node, "construct %s inside a loop" % k)

    def emit_fn(self, fn):
        params = " ".join("(%s : %s)" % (p, ty_coq(t)) for p, t in zip(fn.params, fn.ptys))
        glob = "(N__ : Num) (F__ : Fns N__)" + (" (H__ : HypFns N__)" if self.externals else "") + \
            (" (E__ : ExtFns N__)" if "E" in fn.uses else "")
        out = ["(** tsdate/%s.py:%d-%d  [%s]%s *)" % (
            self.modname, fn.lines[0], fn.lines[1], fn.pyname,
            "   uses: " + " ".join(sorted(fn.uses)) if fn.uses else "")]
        for a in fn.asserts:
            out.append("(*   %s   ==> Err EAssert when false *)" % a.replace("*)", "* )"))
        if fn.fuel:
            out.append("Fixpoint %s_rec %s (fuel__ : nat) %s {struct fuel__} : %s :=" % (
                fn.coqname, glob, params, fn.rtype_coq()))
            out.append("  match fuel__ with O => Err EFuel | S fuel__ =>")
            out += self.emit(fn.ir, fn, 2)
            out.append("  end.")
            out.append("Definition %s %s %s : %s := %s_rec N__ F__ %s %s." % (
                fn.coqname, glob, params, fn.rtype_coq(), fn.coqname, fn.fuel, " ".join(fn.params)))
        else:
            out.append("Definition %s %s %s : %s :=" % (fn.coqname, glob, params, fn.rtype_coq()))
            body = self.emit(fn.ir, fn, 1)
            body[-1] += "."
            out += body
        return out

    def emit_module(self, genname, frozen=False):
        if frozen:
            out = ["(* FROZEN copy of the translator's output for tsdate/%s.py (tools/translate.py --freeze)." % self.modname,
                   "   gen/GenEq*.v proves, by reflexivity, that the text regenerated on every check is convertible",
                   "   with this one; source sha256 at freeze time %s *)" % self.sha]
        else:
            out = ["(* GENERATED by tools/translate.py from tsdate/%s.py -- DO NOT EDIT (rewritten on every check)." % self.modname,
                   "   source sha256 %s *)" % self.sha]
        out += ["From Coq Require Import ZArith PrimFloat.",
                "From TsdateV Require Import lib.Num model.ApproxBase."]
        out.append("")
        for fn in self.order:
            out += self.emit_fn(fn)
            out.append("")
        if not self.externals:
            out.append("(** this module's functions packed into the record approx.py is written against")
            out.append("    (ApproxBase.HypFns); a change of a result type makes this definition ill-typed *)")
            out.append("Definition hypfns (N__ : Num) (F__ : Fns N__) : HypFns N__ :=")
            out.append("  {| " + ";\n     ".join("h_%s := %s N__ F__" % (fn.coqname, fn.coqname) for fn in self.order) + " |}.")
            out.append("")
        return "\n".join(out) + "\n"


# ------------------------------------------------------------------ driver
def translate_repo(repo):
    hyp = ModuleTranslator("hypergeo", os.path.join(repo, "tsdate", "hypergeo.py"))
    hyp.genname = "HypergeoGen"
    hyp.translate_all()
    apx = ModuleTranslator("approx", os.path.join(repo, "tsdate", "approx.py"), externals={"hypergeo": hyp})
    apx.genname = "ApproxGen"
    apx.translate_all()
    return hyp, apx


# which regenerated functions each property is about (its frozen-text comparison covers these)
_MOM = [n for n in TRANSLATE["approx"]
        if (n.endswith("_moments") and n != "approximate_log_moments" and not n.startswith("_valid")) or n == "moments"]
_PROJ = [n for n in TRANSLATE["approx"] if n.endswith("_projection")]
_VALID = [n for n in TRANSLATE["approx"] if n.startswith("_valid_")]
GROUPS = {
    "C18": {"hypergeo": ["_betaln", "_hyperu_laplace", "_hyp1f1_laplace", "_hyp2f1_laplace"],
            "approx": ["approximate_gamma_mom"] + _VALID + _MOM + _PROJ},
    "C19": {"hypergeo": ["_digamma", "_trigamma", "_betaln"],
            "approx": ["approximate_log_moments", "approximate_gamma_kl", "approximate_gamma_mom", "approximate_gamma_iqr"]},
    "C06": {"hypergeo": [],
            "approx": ["approximate_gamma_mom"] + _VALID + _MOM + _PROJ},
}


def gen_eq(hyp, apx, group):
    """`reflexivity` comparison of the regenerated functions of one property with the frozen copies"""
    out = ["(* GENERATED by tools/translate.py -- DO NOT EDIT.  Every regenerated function %s is about is" % group,
           "   convertible with its frozen copy under coq/model (any edit to a translated formula is noticed,",
           "   also when no theorem happens to pin it). *)",
           "From TsdateV Require Import lib.Num model.ApproxBase gen.HypergeoGen gen.ApproxGen",
           "  model.HypergeoFrozen model.ApproxFrozen.", ""]
    eqs, lemmas = [], []
    for m, frozen in ((hyp, "HypergeoFrozen"), (apx, "ApproxFrozen")):
        for name in GROUPS[group][m.modname]:
            fn = m.fns[name]
            names = [fn.coqname + "_rec", fn.coqname] if fn.fuel else [fn.coqname]
            for c in names:
                eqs.append("(@%s.%s = @%s.%s)" % (m.genname, c, frozen, c))
                lemmas.append("eq_%s_%s" % (m.modname, c))
                if fn.fuel and c == fn.coqname:
                    # f x := f_rec fuel x : rewrite with the equality of the fixpoints instead of
                    # letting the conversion unroll them
                    out.append("Lemma eq_%s_%s : @%s.%s = @%s.%s.\nProof. unfold %s.%s, %s.%s. rewrite eq_%s_%s_rec. exact eq_refl. Qed." % (
                        m.modname, c, m.genname, c, frozen, c, m.genname, c, frozen, c, m.modname, c))
                else:
                    out.append("Lemma eq_%s_%s : @%s.%s = @%s.%s. Proof. exact eq_refl. Qed." % (
                        m.modname, c, m.genname, c, frozen, c))
    out.append("")
    out.append("Definition unchanged_%s : Prop :=\n  %s." % (group, "\n  /\\ ".join(eqs)))
    out.append("Lemma unchanged_%s_holds : unchanged_%s." % (group, group))
    proof = lemmas[-1]
    for l in reversed(lemmas[:-1]):
        proof = "(conj %s %s)" % (l, proof)
    out.append("Proof. exact %s. Qed." % proof)
    return "\n".join(out) + "\n"


def regen(repo=None, out=None, write=True, freeze=False):
    repo = repo or os.environ.get("VERIF_REPO", "/repo")
    out = out or os.path.join(VERIF, "coq", "gen")
    hyp, apx = translate_repo(repo)
    if freeze:
        files = {"HypergeoFrozen.v": hyp.emit_module("HypergeoFrozen", frozen=True),
                 "ApproxFrozen.v": apx.emit_module("ApproxFrozen", frozen=True)}
    else:
        files = {"HypergeoGen.v": hyp.emit_module("HypergeoGen"), "ApproxGen.v": apx.emit_module("ApproxGen")}
        for g in GROUPS:
            files["GenEq%s.v" % g] = gen_eq(hyp, apx, g)
    if write:
        os.makedirs(out, exist_ok=True)
        for name, text in files.items():
            p = os.path.join(out, name)
            old = open(p).read() if os.path.exists(p) else None
            if old != text:                      # keep mtimes when nothing changed (incremental make)
                with open(p + ".tmp", "w") as f:
                    f.write(text)
                os.replace(p + ".tmp", p)
    info = {
        "functions": {m.modname: [fn.pyname for fn in m.order] for m in (hyp, apx)},
        "asserts": [a for m in (hyp, apx) for fn in m.order for a in fn.asserts],
        "sha256": {"hypergeo": hyp.sha, "approx": apx.sha},
        "kinds": {fn.pyname: fn.rtype_coq() for m in (hyp, apx) for fn in m.order},
        "meta": {fn.pyname: {"module": m.modname, "coq": fn.coqname, "params": list(fn.params),
                             "ptys": ["T" if t == "T" else len(t[1]) for t in fn.ptys],
                             "rty": fn.rty, "is_bool": fn.is_bool, "can_nan": fn.can_nan,
                             "can_raise": fn.can_raise, "uses": sorted(fn.uses), "uses_ext": "E" in fn.uses,
                             "lines": list(fn.lines),
                             "asserts": list(fn.asserts)}
                 for m in (hyp, apx) for fn in m.order},
        "files": files,
    }
    return info


if __name__ == "__main__":
    import argparse
    ap = argparse.ArgumentParser()
    ap.add_argument("--repo", default=os.environ.get("VERIF_REPO", "/repo"))
    ap.add_argument("--out", default=None)
    ap.add_argument("--freeze", action="store_true",
                    help="write the frozen copies coq/model/{Hypergeo,Approx}Frozen.v instead of coq/gen")
    a = ap.parse_args()
    try:
        info = regen(a.repo, a.out or os.path.join(VERIF, "coq", "model" if a.freeze else "gen"), freeze=a.freeze)
    except Reject as e:
        print("REJECT:", e)
        sys.exit(2)
    print("translated %d + %d functions; %d assertions kept as checks" % (
        len(info["functions"]["hypergeo"]), len(info["functions"]["approx"]), len(info["asserts"])))
