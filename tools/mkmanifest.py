#!/venv/bin/python
"""Assemble /verif/MANIFEST.json from manifest.d/<ID>.json fragments (one per property)."""
import json, os, sys
HERE = os.path.abspath(os.path.join(os.path.dirname(__file__), ".."))
props = [json.loads(l) for l in open(os.path.join(HERE, "properties.jsonl"))]
checks, na = [], []
for p in props:
    pid = p["id"]
    frag = os.path.join(HERE, "manifest.d", pid + ".json")
    if os.path.exists(frag):
        f = json.load(open(frag))
        if "not_applicable" in f:
            na.append({"property_id": pid, "reason": f["not_applicable"]})
            continue
        c = {
            "property_id": pid,
            "quick_cmd": "./check %s --tier quick" % pid,
            "thorough_cmd": "./check %s --tier thorough" % pid,
            "evidence_file": "/verif/evidence/%s.json" % pid,
            "replay_cmd_template": "./check %s --replay {path}" % pid,
            "engine": "coq-model+correspondence",
            "level_claimed": {"category": f.get("category", "proof"), "text": f["text"],
                              "design_ref": f.get("design_ref", "DESIGN.md section 8, " + pid)},
            "level_note": f["note"],
            "technique": f["technique"],
        }
        checks.append(c)
    else:
        na.append({"property_id": pid, "reason": "not claimed: the model/theorems/correspondence for this "
                   "property are not built yet (see DESIGN.md section 10); nothing is claimed on the strength of the design alone"})
m = {
    "version": 1,
    "setup_cmd": "tools/setup.sh",
    "hooks": {
        "guard": "TSDATE_VERIF",
        "enable": "no source hooks: checks call public and module-level functions of /repo/tsdate from outside (PYTHONPATH=/repo)",
        "baseline_off_cmd": "cd /repo && /venv/bin/python -m pytest -ra -q -p no:cacheprovider --timeout=900 --continue-on-collection-errors",
        "source_commits": [],
        "add_only": True,
    },
    "engines": [{
        "name": "coq-model+correspondence",
        "path": "/verif/check",
        "serves_properties": [c["property_id"] for c in checks],
        "kind_free_text": "Coq 8.16.1 theorems about executable Gallina models (coq/model, coq/proofs, coq/props); "
                          "models tied to /repo on every run by evaluating them inside Coq (vm_compute, PrimFloat/Z/Q) on the "
                          "same generated inputs as the implementation, plus regenerated-from-source Gallina where a translator exists; "
                          "property oracles on the implementation search for the failing input when a tie breaks",
    }],
    "checks": checks,
    "not_applicable": na,
    "notes": "See DESIGN.md. known_findings.json lists genuine defects (open and fixed). Repairs in /repo are the 'fix:' commits.",
}
json.dump(m, open(os.path.join(HERE, "MANIFEST.json"), "w"), indent=1)
# known findings: merged from findings.d/*.json (lists of open findings; _fixed.json holds the repaired ones)
import glob
kf = {"open": [], "fixed": []}
for fn in sorted(glob.glob(os.path.join(HERE, "findings.d", "*.json"))):
    d = json.load(open(fn))
    if isinstance(d, dict):
        kf["fixed"] += d.get("fixed", [])
        kf["open"] += d.get("open", [])
    else:
        kf["open"] += d
json.dump(kf, open(os.path.join(HERE, "known_findings.json"), "w"), indent=1)
print("MANIFEST.json: %d checks, %d not_applicable" % (len(checks), len(na)))
