#!/bin/bash
# Usage: tools/coqbuild.sh [make-target ...]   (default: all .vo)
# Full .vo build (never -vos/-vok) of the Coq development under /verif/coq.
set -e
cd "$(dirname "$0")/../coq"
exec 9>.build.lock
flock 9
{
  echo "-Q . TsdateV"
  echo "-arg -w -arg -notation-overridden,-deprecated-hint-without-locality,-deprecated-instance-without-locality,-inexact-float"
  find lib model gen proofs props -name '*.v' | LC_ALL=C sort
} > _CoqProject.new
if ! cmp -s _CoqProject.new _CoqProject 2>/dev/null; then
  mv _CoqProject.new _CoqProject
  coq_makefile -f _CoqProject -o Makefile >/dev/null
else
  rm -f _CoqProject.new
fi
[ -f Makefile ] || coq_makefile -f _CoqProject -o Makefile >/dev/null
if [ $# -eq 0 ]; then
  timeout "${COQ_TIMEOUT:-400}" make ${COQ_KEEP_GOING:+-k} -j"${COQ_JOBS:-16}" 2>&1
else
  timeout "${COQ_TIMEOUT:-400}" make -j"${COQ_JOBS:-16}" "$@" 2>&1
fi
