#!/bin/bash
# tools/verify_seed.sh <seeded-dir-name>   -> seeded/<name>/verify.txt
# Independent confirmation of a seeded change, in a fresh private worktree of /repo's HEAD
# (no git stash: the stash is shared by all worktrees of a repository):
#   demo on the unchanged source must pass, demo with the patch must fail, and the full
#   unedited test suite must still pass with the patch.
NAME="$1"; S="/verif/seeded/$NAME"; W="/tmp/verify_$NAME"
[ -f "$S/patch.diff" ] || { echo "no such seeded change: $NAME"; exit 2; }
git -C /repo worktree remove --force "$W" >/dev/null 2>&1
git -C /repo worktree add --detach "$W" >/dev/null 2>&1 || exit 2
cd "$W" || exit 2
cp "$S/demo_break.py" "$W/demo_break.py"
OUT="$S/verify.txt"; : > "$OUT"
echo "verified at /repo commit $(git -C /repo rev-parse --short HEAD) on $(date -u +%FT%TZ)" >> "$OUT"
run_demo() { PYTHONPATH="$W" PYTHONHASHSEED=0 NUMBA_DISABLE_JIT=1 timeout 1800 /venv/bin/python demo_break.py > "$W/.demo_out.txt" 2>&1; echo $?; }
echo "demo without change: exit $(run_demo)" >> "$OUT"; grep -v conda "$W/.demo_out.txt" | tail -2 | cut -c1-300 >> "$OUT"
if git apply "$S/patch.diff"; then echo "patch applies cleanly" >> "$OUT"; else echo "PATCH DOES NOT APPLY" >> "$OUT"; fi
echo "demo with change: exit $(run_demo)" >> "$OUT"; grep -v conda "$W/.demo_out.txt" | tail -3 | cut -c1-300 >> "$OUT"
echo "suite with change: $(PYTHONPATH="$W" timeout 3000 /venv/bin/python -m pytest -q -p no:cacheprovider --timeout=900 2>&1 | grep -E 'passed|failed|error' | tail -1)" >> "$OUT"
cd /; git -C /repo worktree remove --force "$W" >/dev/null 2>&1
