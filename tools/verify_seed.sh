#!/bin/bash
# tools/verify_seed.sh <worktree-with-change-applied>  -> <worktree>/verify.txt
# Confirms a seeded change independently: demo fails with it, passes without it, test suite passes with it.
W="$1"; cd "$W" || exit 2
OUT="$W/verify.txt"; : > "$OUT"
run_demo() { PYTHONPATH="$W" PYTHONHASHSEED=0 NUMBA_DISABLE_JIT=1 timeout 900 /venv/bin/python demo_break.py > "$W/.demo_out.txt" 2>&1; echo $?; }
echo "demo with change: exit $(run_demo)" >> "$OUT"; tail -3 "$W/.demo_out.txt" | grep -v conda >> "$OUT"
git stash -q -- tsdate
echo "demo without change: exit $(run_demo)" >> "$OUT"; tail -2 "$W/.demo_out.txt" | grep -v conda >> "$OUT"
git stash pop -q
echo "suite with change: $(PYTHONPATH="$W" timeout 3000 /venv/bin/python -m pytest -q -p no:cacheprovider --timeout=900 2>&1 | grep -E 'passed|failed|error' | tail -1)" >> "$OUT"
git diff --stat -- tsdate | tail -1 >> "$OUT"
