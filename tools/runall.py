#!/venv/bin/python
"""Run every check of MANIFEST.json (quick by default) and summarise: exit codes, VIOLATION /
KNOWN-FINDING lines, wall time, evidence validity.   tools/runall.py [quick|thorough] [ID ...]"""
import json, os, subprocess, sys, time
import jsonschema
HERE = os.path.abspath(os.path.join(os.path.dirname(__file__), ".."))
tier = "quick"
ids = []
for a in sys.argv[1:]:
    if a in ("quick", "thorough"):
        tier = a
    else:
        ids.append(a.upper())
man = json.load(open(os.path.join(HERE, "MANIFEST.json")))
jsonschema.validate(man, json.load(open("/root/.vp/MANIFEST.schema.json")))
evs = json.load(open("/root/.vp/EVIDENCE.schema.json"))
rows = []
for c in man["checks"]:
    pid = c["property_id"]
    if ids and pid not in ids:
        continue
    cmd = c["quick_cmd"] if tier == "quick" else c.get("thorough_cmd", c["quick_cmd"])
    ev = c["evidence_file"]
    if os.path.exists(ev):
        os.remove(ev)
    t0 = time.time()
    p = subprocess.run(cmd, shell=True, cwd=HERE, capture_output=True, text=True)
    dt = time.time() - t0
    lines = [l for l in p.stdout.split("\n") if l.startswith(("VIOLATION", "KNOWN-FINDING"))]
    evok = "missing"
    if os.path.exists(ev):
        try:
            jsonschema.validate(json.load(open(ev)), evs)
            evok = "valid"
        except Exception as e:
            evok = "INVALID: " + str(e)[:80]
    rows.append((pid, p.returncode, round(dt), evok, lines))
    print("%s rc=%d %4ds evidence=%s %s" % (pid, p.returncode, dt, evok, " | ".join(l[:100] for l in lines)), flush=True)
bad = [r for r in rows if r[1] != 0 or r[3] != "valid"]
print("\n%d checks, %d with problems: %s" % (len(rows), len(bad), [r[0] for r in bad]))
