#!/venv/bin/python
"""Fail-closed translator: /repo/tsdate/cli.py  ->  coq/gen/CliGen.v   (property C34)

What is extracted (Python `ast`, nothing is executed):
  * `_str_to_bool`: the two literal tuples of accepted spellings;
  * `tsdate_cli_parser`: for each of the two sub-parsers the option table in source order --
    flags, dest, type converter, default, action, nargs, choices;
  * `run_date`: the deprecated-positional guard, the method test, per branch the options whose
    presence is an error (`if args.X is not None: error_exit(...)`) and the `params = dict(...)`
    mapping API keyword -> args attribute; the final `tsdate.date(ts, kw=args.X, **params)`;
  * `run_preprocess`: the keywords of `tsdate.preprocess_ts(ts, kw=args.X, ...)`;
  * `tsdate_main`: parse, setup_logging, runner.
Any construct outside these shapes raises TranslateError (a broken tie), never a silent skip.
"""
import ast
import os
import sys


class TranslateError(Exception):
    pass


def fail(node, what):
    raise TranslateError("cli.py:%s: unsupported construct: %s" % (getattr(node, "lineno", "?"), what))


def coq_str(s):
    if not isinstance(s, str):
        raise TranslateError("not a string: %r" % (s,))
    if any(ord(c) > 126 or ord(c) < 32 for c in s):
        raise TranslateError("non-printable character in %r" % s)
    return '"' + s.replace('"', '""') + '"'


def coq_list(items):
    return "[" + "; ".join(items) + "]"


# ------------------------------------------------------------------ constants of core.py
def core_constants(repo):
    src = open(os.path.join(repo, "tsdate", "core.py")).read()
    mod = ast.parse(src)
    consts = {}
    for st in mod.body:
        if isinstance(st, ast.Assign) and len(st.targets) == 1 and isinstance(st.targets[0], ast.Name) \
                and st.targets[0].id.startswith("DEFAULT_") and isinstance(st.value, ast.Constant) \
                and isinstance(st.value.value, (int, float)) and not isinstance(st.value.value, bool):
            consts[st.targets[0].id] = (st.value.value, ast.get_source_segment(src, st.value))
    return consts


# ------------------------------------------------------------------ helpers on the AST
def is_name(node, name):
    return isinstance(node, ast.Name) and node.id == name


def is_attr(node, base, attr):
    return isinstance(node, ast.Attribute) and is_name(node.value, base) and node.attr == attr


def args_attr(node):
    """`args.X` -> 'X'"""
    if isinstance(node, ast.Attribute) and is_name(node.value, "args"):
        return node.attr
    fail(node, "expected args.<dest>")


def const_str(node):
    if isinstance(node, ast.Constant) and isinstance(node.value, str):
        return node.value
    fail(node, "expected a string literal")


def skip_doc(body):
    if body and isinstance(body[0], ast.Expr) and isinstance(body[0].value, ast.Constant) \
            and isinstance(body[0].value.value, str):
        return body[1:]
    return body


def is_error_exit(st):
    return isinstance(st, ast.Expr) and isinstance(st.value, ast.Call) and is_name(st.value.func, "error_exit")


# ------------------------------------------------------------------ _str_to_bool
def tr_str_to_bool(fn):
    body = skip_doc(fn.body)
    if len(fn.args.args) != 1 or fn.args.args[0].arg != "value":
        fail(fn, "_str_to_bool signature")
    if len(body) != 3:
        fail(fn, "_str_to_bool must be: if ...: return True; if ...: return False; raise")
    out = []
    for st, want in zip(body[:2], (True, False)):
        if not (isinstance(st, ast.If) and not st.orelse and len(st.body) == 1 and isinstance(st.body[0], ast.Return)
                and isinstance(st.body[0].value, ast.Constant) and st.body[0].value.value is want):
            fail(st, "_str_to_bool branch")
        t = st.test
        if not (isinstance(t, ast.Compare) and len(t.ops) == 1 and isinstance(t.ops[0], ast.In)
                and isinstance(t.left, ast.Call) and isinstance(t.left.func, ast.Attribute)
                and t.left.func.attr == "lower" and is_name(t.left.func.value, "value") and not t.left.args
                and isinstance(t.comparators[0], (ast.Tuple, ast.List))):
            fail(st, "_str_to_bool test must be value.lower() in (...)")
        out.append([const_str(e) for e in t.comparators[0].elts])
    if not isinstance(body[2], ast.Raise):
        fail(body[2], "_str_to_bool must end with raise")
    for s in out[0] + out[1]:
        if s != s.lower():
            fail(fn, "spelling %r is not lower case (could never match value.lower())" % s)
    return out


# ------------------------------------------------------------------ the parser
CONVERTERS = {"float": "CFloat", "int": "CInt", "str": "CStr", "bool": "CPyBool", "_str_to_bool": "CStrToBool"}


def tr_default(node, consts, src):
    """default=... -> Coq `dflt`"""
    if node is None or (isinstance(node, ast.Constant) and node.value is None):
        return "DNone"
    if isinstance(node, ast.Constant):
        v = node.value
        if isinstance(v, bool):
            return "(DBool %s)" % ("true" if v else "false")
        if isinstance(v, int):
            return "(DInt %s)" % coq_str(str(v))
        if isinstance(v, float):
            return "(DFloat %s)" % coq_str(repr(v))
        if isinstance(v, str):
            return "(DStr %s)" % coq_str(v)
        fail(node, "default literal")
    if isinstance(node, ast.Attribute) and is_name(node.value, "core") and node.attr in consts:
        v, _text = consts[node.attr]
        if isinstance(v, int):
            return "(DInt %s)" % coq_str(str(v))
        return "(DFloat %s)" % coq_str(repr(v))
    fail(node, "default expression")


def tr_add_argument(call, consts, src):
    flags = []
    for a in call.args:
        flags.append(const_str(a))
    if not flags:
        fail(call, "add_argument without a name")
    kw = {}
    for k in call.keywords:
        if k.arg is None:
            fail(call, "**kwargs in add_argument")
        kw[k.arg] = k.value
    unknown = set(kw) - {"type", "default", "help", "action", "nargs", "choices", "version", "dest"}
    if unknown:
        fail(call, "add_argument keyword(s) %s" % sorted(unknown))
    positional = not flags[0].startswith("-")
    if positional and len(flags) != 1:
        fail(call, "positional with several names")
    if not positional and not all(f.startswith("-") for f in flags):
        fail(call, "mixed positional/optional names")
    # dest as argparse derives it: first long option, else first short one; '-' -> '_'
    if "dest" in kw:
        dest = const_str(kw["dest"])
    elif positional:
        dest = flags[0]
    else:
        longs = [f for f in flags if f.startswith("--")]
        dest = (longs[0][2:] if longs else flags[0][1:]).replace("-", "_")
    action = "AStore"
    if "action" in kw:
        a = const_str(kw["action"])
        action = {"store": "AStore", "store_true": "AStoreTrue", "count": "ACount", "version": "AVersion"}.get(a)
        if action is None:
            fail(call, "action %r" % a)
    conv = "CStr"
    if "type" in kw:
        t = kw["type"]
        if not (isinstance(t, ast.Name) and t.id in CONVERTERS):
            fail(call, "type converter")
        conv = CONVERTERS[t.id]
    if action in ("AStoreTrue", "ACount", "AVersion") and "type" in kw:
        fail(call, "type= with a flag action")
    nargs = "NOne"
    if "nargs" in kw:
        n = kw["nargs"]
        if isinstance(n, ast.Constant) and n.value == "?":
            nargs = "NOptional"
        else:
            fail(call, "nargs other than '?'")
        if not positional:
            fail(call, "nargs='?' on an option")
    choices = "None"
    if "choices" in kw:
        c = kw["choices"]
        if not isinstance(c, (ast.List, ast.Tuple)):
            fail(call, "choices")
        choices = "(Some %s)" % coq_list([coq_str(const_str(e)) for e in c.elts])
    if action == "AStoreTrue":
        default = "(DBool false)" if "default" not in kw else tr_default(kw["default"], consts, src)
    elif action == "AVersion":
        default = "DNone"
    else:
        default = tr_default(kw.get("default"), consts, src)
    return ("{| o_flags := %s; o_dest := %s; o_positional := %s; o_action := %s; o_conv := %s; "
            "o_nargs := %s; o_default := %s; o_choices := %s |}" % (
                coq_list([coq_str(f) for f in flags]), coq_str(dest), "true" if positional else "false",
                action, conv, nargs, default, choices)), dest


def tr_parser(fn, consts, src):
    body = skip_doc(fn.body)
    tables = {}
    runners = {}
    current = None
    top_opts = []
    saw_subparsers = False
    required = False
    for st in body:
        # top_parser = argparse.ArgumentParser(...)
        if isinstance(st, ast.Assign) and len(st.targets) == 1 and is_name(st.targets[0], "top_parser"):
            if not (isinstance(st.value, ast.Call) and is_attr(st.value.func, "argparse", "ArgumentParser")):
                fail(st, "top_parser")
            for k in st.value.keywords:
                if k.arg not in ("description", "prog", "epilog"):
                    fail(st, "ArgumentParser keyword %s" % k.arg)
            continue
        if isinstance(st, ast.Expr) and isinstance(st.value, ast.Call) and \
                is_attr(st.value.func, "top_parser", "add_argument"):
            o, _d = tr_add_argument(st.value, consts, src)
            top_opts.append(o)
            continue
        if isinstance(st, ast.Assign) and len(st.targets) == 1 and is_name(st.targets[0], "subparsers"):
            v = st.value
            if not (isinstance(v, ast.Call) and is_attr(v.func, "top_parser", "add_subparsers")
                    and len(v.keywords) == 1 and v.keywords[0].arg == "dest"
                    and const_str(v.keywords[0].value) == "subcommand" and not v.args):
                fail(st, "add_subparsers")
            saw_subparsers = True
            continue
        if isinstance(st, ast.Assign) and len(st.targets) == 1 and is_attr(st.targets[0], "subparsers", "required"):
            if not (isinstance(st.value, ast.Constant) and st.value.value is True):
                fail(st, "subparsers.required")
            required = True
            continue
        if isinstance(st, ast.Assign) and len(st.targets) == 1 and is_name(st.targets[0], "parser"):
            v = st.value
            if not (isinstance(v, ast.Call) and is_attr(v.func, "subparsers", "add_parser") and len(v.args) == 1):
                fail(st, "add_parser")
            for k in v.keywords:
                if k.arg != "help":
                    fail(st, "add_parser keyword %s" % k.arg)
            current = const_str(v.args[0])
            if current in tables:
                fail(st, "duplicate sub-parser")
            tables[current] = []
            continue
        if isinstance(st, ast.Expr) and isinstance(st.value, ast.Call) and is_attr(st.value.func, "parser", "add_argument"):
            if current is None:
                fail(st, "add_argument before add_parser")
            o, d = tr_add_argument(st.value, consts, src)
            if d in [x[1] for x in tables[current]]:
                fail(st, "duplicate dest %s" % d)
            tables[current].append((o, d))
            continue
        if isinstance(st, ast.Expr) and isinstance(st.value, ast.Call) and is_attr(st.value.func, "parser", "set_defaults"):
            v = st.value
            if not (len(v.keywords) == 1 and v.keywords[0].arg == "runner" and isinstance(v.keywords[0].value, ast.Name)):
                fail(st, "set_defaults")
            runners[current] = v.keywords[0].value.id
            continue
        if isinstance(st, ast.Return):
            if not is_name(st.value, "top_parser"):
                fail(st, "return")
            continue
        fail(st, ast.dump(st)[:80])
    if not saw_subparsers or not required:
        raise TranslateError("sub-parsers must exist and be required")
    if set(tables) != {"date", "preprocess"} or runners != {"date": "run_date", "preprocess": "run_preprocess"}:
        raise TranslateError("expected sub-parsers date -> run_date and preprocess -> run_preprocess, got %r %r" % (
            sorted(tables), runners))
    return tables, top_opts


# ------------------------------------------------------------------ run_date / run_preprocess
def is_load(st):
    """try: ts = tskit.load(args.tree_sequence) except tskit.FileFormatError as ffe: error_exit(...)"""
    if not (isinstance(st, ast.Try) and len(st.body) == 1 and len(st.handlers) == 1 and not st.orelse
            and not st.finalbody):
        return False
    a = st.body[0]
    ok = (isinstance(a, ast.Assign) and is_name(a.targets[0], "ts") and isinstance(a.value, ast.Call)
          and is_attr(a.value.func, "tskit", "load") and len(a.value.args) == 1
          and args_attr(a.value.args[0]) == "tree_sequence" and not a.value.keywords)
    h = st.handlers[0]
    ok = ok and is_attr(h.type, "tskit", "FileFormatError") and len(h.body) == 1 and is_error_exit(h.body[0])
    return ok


def tr_forbidden(st):
    """if args.X is not None: error_exit(...)  ->  'X'"""
    if not (isinstance(st, ast.If) and not st.orelse and len(st.body) == 1 and is_error_exit(st.body[0])):
        fail(st, "expected `if args.X is not None: error_exit(...)`")
    t = st.test
    if not (isinstance(t, ast.Compare) and len(t.ops) == 1 and isinstance(t.ops[0], ast.IsNot)
            and isinstance(t.comparators[0], ast.Constant) and t.comparators[0].value is None):
        fail(st, "expected `args.X is not None`")
    return args_attr(t.left)


def tr_params(st):
    """params = dict(k=args.X, ...)"""
    if not (isinstance(st, ast.Assign) and is_name(st.targets[0], "params") and isinstance(st.value, ast.Call)
            and is_name(st.value.func, "dict") and not st.value.args):
        fail(st, "expected params = dict(...)")
    out = []
    for k in st.value.keywords:
        if k.arg is None:
            fail(st, "** in dict()")
        out.append((k.arg, args_attr(k.value)))
    return out


def tr_branch(body):
    forb = []
    i = 0
    while i < len(body) and isinstance(body[i], ast.If):
        forb.append(tr_forbidden(body[i]))
        i += 1
    if i != len(body) - 1:
        fail(body[i] if i < len(body) else body[-1], "branch must be guards followed by params = dict(...)")
    return forb, tr_params(body[i])


def tr_api_call(st, target, func):
    """target = tsdate.<func>(ts, kw=args.X, ..., **params)"""
    if not (isinstance(st, ast.Assign) and is_name(st.targets[0], target) and isinstance(st.value, ast.Call)
            and is_attr(st.value.func, "tsdate", func) and len(st.value.args) == 1 and is_name(st.value.args[0], "ts")):
        fail(st, "expected %s = tsdate.%s(ts, ...)" % (target, func))
    direct = []
    star = False
    for k in st.value.keywords:
        if k.arg is None:
            if not is_name(k.value, "params"):
                fail(st, "**<something else>")
            star = True
        else:
            direct.append((k.arg, args_attr(k.value)))
    return direct, star


def is_dump(st, target):
    return (isinstance(st, ast.Expr) and isinstance(st.value, ast.Call) and isinstance(st.value.func, ast.Attribute)
            and st.value.func.attr == "dump" and is_name(st.value.func.value, target)
            and len(st.value.args) == 1 and args_attr(st.value.args[0]) == "output" and not st.value.keywords)


def tr_run_date(fn):
    body = skip_doc(fn.body)
    if len(body) != 5:
        fail(fn, "run_date must have 5 statements (deprecated guard, load, method branches, call, dump)")
    dep = tr_forbidden(body[0])
    if not is_load(body[1]):
        fail(body[1], "load")
    br = body[2]
    if not (isinstance(br, ast.If) and isinstance(br.test, ast.Compare) and len(br.test.ops) == 1
            and isinstance(br.test.ops[0], ast.Eq) and args_attr(br.test.left) == "method"):
        fail(br, "expected `if args.method == \"...\"`")
    method = const_str(br.test.comparators[0])
    then = tr_branch(br.body)
    other = tr_branch(br.orelse)
    direct, star = tr_api_call(body[3], "dated_ts", "date")
    if not star:
        fail(body[3], "**params missing")
    if not is_dump(body[4], "dated_ts"):
        fail(body[4], "dump")
    return dep, method, then, other, direct


def tr_run_preprocess(fn):
    body = skip_doc(fn.body)
    if len(body) != 3 or not is_load(body[0]):
        fail(fn, "run_preprocess must be load, call, dump")
    direct, star = tr_api_call(body[1], "snipped_ts", "preprocess_ts")
    if star:
        fail(body[1], "unexpected **params")
    if not is_dump(body[2], "snipped_ts"):
        fail(body[2], "dump")
    return direct


def tr_main(fn):
    body = skip_doc(fn.body)
    ok = len(body) == 4
    if ok:
        a, b, c, d = body
        ok = (isinstance(a, ast.Assign) and is_name(a.targets[0], "parser") and isinstance(a.value, ast.Call)
              and is_name(a.value.func, "tsdate_cli_parser"))
        ok = ok and (isinstance(b, ast.Assign) and is_name(b.targets[0], "args") and isinstance(b.value, ast.Call)
                     and is_attr(b.value.func, "parser", "parse_args") and len(b.value.args) == 1
                     and is_name(b.value.args[0], "arg_list"))
        ok = ok and (isinstance(c, ast.Expr) and isinstance(c.value, ast.Call) and is_name(c.value.func, "setup_logging"))
        ok = ok and (isinstance(d, ast.Expr) and isinstance(d.value, ast.Call) and is_attr(d.value.func, "args", "runner")
                     and len(d.value.args) == 1 and is_name(d.value.args[0], "args"))
    if not ok:
        fail(fn, "tsdate_main must be: parser = tsdate_cli_parser(); args = parser.parse_args(arg_list); "
                 "setup_logging(args); args.runner(args)")


def pairs(ps):
    return coq_list(["(%s, %s)" % (coq_str(a), coq_str(b)) for a, b in ps])


def translate(repo):
    path = os.path.join(repo, "tsdate", "cli.py")
    src = open(path).read()
    mod = ast.parse(src)
    consts = core_constants(repo)
    fns = {}
    for st in mod.body:
        if isinstance(st, ast.FunctionDef):
            fns[st.name] = st
        elif isinstance(st, (ast.Import, ast.ImportFrom, ast.Expr)):
            continue
        elif isinstance(st, ast.Assign) and len(st.targets) == 1 and isinstance(st.targets[0], ast.Name) \
                and st.targets[0].id in ("logger", "log_format"):
            continue
        else:
            fail(st, "module-level statement")
    expected = {"error_exit", "setup_logging", "_str_to_bool", "tsdate_cli_parser", "run_date", "run_preprocess",
                "tsdate_main"}
    if set(fns) != expected:
        raise TranslateError("functions of cli.py changed: %r" % sorted(set(fns) ^ expected))
    trues, falses = tr_str_to_bool(fns["_str_to_bool"])
    tables, top_opts = tr_parser(fns["tsdate_cli_parser"], consts, src)
    dep, method, then, other, direct = tr_run_date(fns["run_date"])
    pre = tr_run_preprocess(fns["run_preprocess"])
    tr_main(fns["tsdate_main"])
    # error_exit must exit with a message (sys.exit(str) = status 1)
    ee = skip_doc(fns["error_exit"].body)
    if not (len(ee) == 1 and isinstance(ee[0], ast.Expr) and isinstance(ee[0].value, ast.Call)
            and is_attr(ee[0].value.func, "sys", "exit") and len(ee[0].value.args) == 1
            and isinstance(ee[0].value.args[0], ast.JoinedStr)):
        fail(fns["error_exit"], "error_exit must be sys.exit(f\"...\")")
    dests = {k: [d for _o, d in v] for k, v in tables.items()}
    for name, lst in (("deprecated guard", [dep]), ("then-forbidden", then[0]), ("else-forbidden", other[0]),
                      ("then-params", [d for _k, d in then[1]]), ("else-params", [d for _k, d in other[1]]),
                      ("date call", [d for _k, d in direct])):
        for d in lst:
            if d not in dests["date"]:
                raise TranslateError("%s refers to args.%s which the date parser does not define" % (name, d))
    for _k, d in pre:
        if d not in dests["preprocess"]:
            raise TranslateError("run_preprocess refers to args.%s which the preprocess parser does not define" % d)
    out = []
    out.append("(** GENERATED by tools/translate_cli.py from tsdate/cli.py -- do not edit. *)")
    out.append("From Coq Require Import List String.")
    out.append("From TsdateV Require Import model.Cli.")
    out.append("Import ListNotations.")
    out.append("Open Scope string_scope.")
    out.append("")
    out.append("Definition str_to_bool_true : list string := %s." % coq_list([coq_str(s) for s in trues]))
    out.append("Definition str_to_bool_false : list string := %s." % coq_list([coq_str(s) for s in falses]))
    out.append("")
    for name in ("date", "preprocess"):
        out.append("Definition %s_options : list opt :=\n  [ %s ]." % (
            name, ";\n    ".join(o for o, _d in tables[name])))
        out.append("")
    out.append("Definition date_deprecated_positional : string := %s." % coq_str(dep))
    out.append("Definition date_branch_method : string := %s." % coq_str(method))
    out.append("Definition date_then_forbidden : list string := %s." % coq_list([coq_str(d) for d in then[0]]))
    out.append("Definition date_then_params : list (string * string) := %s." % pairs(then[1]))
    out.append("Definition date_else_forbidden : list string := %s." % coq_list([coq_str(d) for d in other[0]]))
    out.append("Definition date_else_params : list (string * string) := %s." % pairs(other[1]))
    out.append("Definition date_direct_params : list (string * string) := %s." % pairs(direct))
    out.append("Definition preprocess_params : list (string * string) := %s." % pairs(pre))
    out.append("")
    out.append("Definition cli : cli_spec :=")
    out.append("  {| c_true := str_to_bool_true; c_false := str_to_bool_false;")
    out.append("     c_date_options := date_options; c_preprocess_options := preprocess_options;")
    out.append("     c_deprecated := date_deprecated_positional; c_branch_method := date_branch_method;")
    out.append("     c_then_forbidden := date_then_forbidden; c_then_params := date_then_params;")
    out.append("     c_else_forbidden := date_else_forbidden; c_else_params := date_else_params;")
    out.append("     c_direct := date_direct_params; c_preprocess_params := preprocess_params |}.")
    out.append("")
    return "\n".join(out)


def main():
    repo = os.environ.get("VERIF_REPO", "/repo")
    here = os.path.abspath(os.path.join(os.path.dirname(__file__), ".."))
    text = translate(repo)
    dst = os.path.join(here, "coq", "gen", "CliGen.v")
    old = open(dst).read() if os.path.exists(dst) else None
    if old != text:
        with open(dst, "w") as f:
            f.write(text)
    return dst


if __name__ == "__main__":
    try:
        print(main())
    except TranslateError as e:
        print("TRANSLATE ERROR:", e)
        sys.exit(1)
