#!/bin/bash
# Offline setup after a fresh restore: build the whole Coq development (full .vo) and
# warm the numba cache for the current /repo sources.
cd "$(dirname "$0")/.."
mkdir -p coq/gen coq/props .work .cache evidence replays
tools/coqbuild.sh > .work/setup_coq.log 2>&1 || { tail -30 .work/setup_coq.log; echo "coq build failed"; exit 1; }
REPO="${VERIF_REPO:-/repo}"
SRCKEY=$(cat "$REPO"/tsdate/*.py | sha1sum | cut -c1-16)
mkdir -p ".cache/numba/$SRCKEY"
PYTHONPATH="$REPO" TSDATE_ENABLE_NUMBA_CACHE=1 NUMBA_CACHE_DIR="$PWD/.cache/numba/$SRCKEY" \
  /venv/bin/python -c "import tsdate; print('tsdate', tsdate.__version__)" 2>&1 | grep -v conda
echo "setup ok"
