#!/bin/bash
# Offline setup after a fresh restore: build the whole Coq development (full .vo) and
# warm the numba cache for the current /repo sources.
cd "$(dirname "$0")/.."
mkdir -p coq/gen coq/props .work .cache evidence replays
# whole development, keep going past a broken file: every check rebuilds exactly what it needs anyway
COQ_KEEP_GOING=1 COQ_TIMEOUT=3000 tools/coqbuild.sh > .work/setup_coq.log 2>&1 || { grep -B2 -A12 "Error" .work/setup_coq.log | head -60; echo "WARNING: some Coq files failed to build (see above); the checks that depend on them will report it"; }
REPO="${VERIF_REPO:-/repo}"
SRCKEY=$(cat "$REPO"/tsdate/*.py | sha1sum | cut -c1-16)
mkdir -p ".cache/numba/$SRCKEY"
PYTHONPATH="$REPO" TSDATE_ENABLE_NUMBA_CACHE=1 NUMBA_CACHE_DIR="$PWD/.cache/numba/$SRCKEY" \
  /venv/bin/python -c "import tsdate; print('tsdate', tsdate.__version__)" 2>&1 | grep -v conda
echo "setup ok"
